import numpy as np, itertools, yastn
cfg = yastn.make_config(sym='Z2', fermionic=True)
L = lambda s: yastn.Leg(cfg, s=s, t=(0,1), D=(1,2))
def fill(t, seed):
    rng = np.random.default_rng(seed)
    t._data = rng.integers(-3,4,size=t._data.shape).astype(float); return t
par = np.array([0,1,1])  # parity per dense index for D=(1,2)
SG = np.where(np.outer(par,par)%2==1, -1.0, 1.0)
def dense(t):
    return t.to_numpy(legs={i: L(t.s[i]) for i in range(t.ndim)})
def ref_value(ts, inds, swaps):
    # labels: positive contracted, nonpositive open
    labs = sorted(set(x for ind in inds for x in ind))
    sym = {l: chr(97+i) for i,l in enumerate(labs)}
    ops=[]; subs=[]
    for t, ind in zip(ts, inds):
        ops.append(dense(t)); subs.append(''.join(sym[x] for x in ind))
    for (a,b) in swaps:
        if a==b:
            ops.append(np.where(par%2==1,-1.0,1.0)); subs.append(sym[a])
        else:
            ops.append(SG); subs.append(sym[a]+sym[b])
    out = ''.join(sym[l] for l in sorted([l for l in labs if l<=0], reverse=True))
    return np.einsum(','.join(subs)+'->'+out, *ops)
bad=tot=rej=0
cmdsets=set()
# network: A(1,2,-0) B(2,3,-1) C(3,1,-2)  triangle with open legs; parities odd/even
for nA,nB,nC in itertools.product([0,1],repeat=3):
    if (nA+nB+nC)%2 not in (0,1): continue
    A = fill(yastn.zeros(cfg, legs=[L(1),L(1),L(1)], n=nA),1)
    B = fill(yastn.zeros(cfg, legs=[L(-1),L(1),L(1)], n=nB),2)
    C = fill(yastn.zeros(cfg, legs=[L(-1),L(-1),L(1)], n=nC),3)
    inds = [(1,2,0),(2,3,-1),(3,1,-2)]
    labels=[1,2,3,0,-1,-2]
    pairs = list(itertools.combinations(labels,2))
    for nsw in [1,2]:
        for swaps in itertools.combinations(pairs, nsw):
            ref = ref_value([A,B,C], inds, swaps)
            for order in itertools.permutations([1,2,3]):
                tot+=1
                try:
                    r = yastn.ncon([A,B,C], inds, order=order, swap=swaps)
                except yastn.YastnError as e:
                    rej+=1; continue
                from yastn.tensor._einsum import _meta_ncon
                d = r.to_numpy(legs={i: L(r.s[i]) for i in range(r.ndim)})
                if not np.array_equal(d, ref):
                    bad+=1
                    if bad<5: print('BAD', (nA,nB,nC), swaps, order, np.abs(d-ref).max())
print('triangle', tot, 'rej', rej, 'bad', bad)
