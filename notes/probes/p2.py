import time, numpy as np, yastn
import yastn.tn.fpeps as fpeps
cfg = yastn.make_config(sym='U1')
l = yastn.Leg(cfg, s=1, t=(-1,0,1), D=(1,2,1))
cfgd = yastn.make_config(sym='none')
r = yastn.rand(cfgd, s=(1,-1), D=(2,3))
print('raw', r.T.to_raw_tensor().shape, r.T.to_numpy().shape, r.T.get_shape())
q = yastn.rand(cfg, legs=[l, l.conj(), l], n=1)
k = q.struct.t[1]
qt = q.transpose((1,0,2))
print(k, k in q, k in qt, (k[1],k[0],k[2]) in qt)
try:
    print(qt[k].shape)
except Exception as e: print('getitem err', e)
print(qt[(k[1],k[0],k[2])].shape, q[k].shape)
# Peps2Layers clone
g = fpeps.SquareLattice(dims=(2,2), boundary='obc')
ops = yastn.operators.SpinlessFermions(sym='U1')
psi = fpeps.product_peps(g, ops.vec_n(1))
psi2 = fpeps.product_peps(g, ops.vec_n(1))
p2 = fpeps.Peps2Layers(ket=psi, bra=psi2)
try:
    p2.clone(); print('clone ok')
except Exception as e: print('clone err', type(e), e)
# triangular roundtrip
t = fpeps.TriangularLattice(dims=(2,2), boundary='obc', full_patch=True)
L = fpeps.Lattice(t, objects={s: yastn.ones(cfg, legs=[l]) for s in t.sites()})
d = L.to_dict()
try:
    L2 = fpeps.Lattice.from_dict(d)
    print('tri rt', L2.geometry.dims, L2.geometry.boundary, L2.geometry.full_patch, L2.geometry == t)
except Exception as e: print('tri err', type(e), e)
