import numpy as np, scipy.linalg as sla, yastn, yastn.tn.mps as mps, time
for sym in ['U1','Z2']:
    ops = yastn.operators.SpinlessFermions(sym=sym)
    ops.random_seed(1)
    N=4
    I = mps.product_mpo(ops.I(), N)
    terms=[]
    rng=np.random.default_rng(0)
    for i in range(N-1):
        t = rng.uniform(-1,1)
        terms += [mps.Hterm(t,(i,i+1),(ops.cp(),ops.c())), mps.Hterm(t,(i+1,i),(ops.cp(),ops.c()))]
        terms += [mps.Hterm(rng.uniform(-1,1),(i,i+1),(ops.n(),ops.n()))]
    for i in range(N):
        terms += [mps.Hterm(rng.uniform(-1,1),(i,),(ops.n(),))]
    H = mps.generate_mpo(I, terms)
    Hd = H.to_matrix().to_numpy()
    print(sym, 'H herm', np.abs(Hd-Hd.conj().T).max(), Hd.shape)
    for D in [16]:
      for method in ['1site','2site','12site']:
        for u in [1j, 1, 0.3+0.7j]:
            psi = mps.random_mps(I, D_total=D, n=2 if sym=='U1' else 0, dtype='complex128')
            psi.canonize_(to='first')
            legs = [ops.space()]*N
            v0 = psi.to_tensor().to_numpy(legs=dict(enumerate(legs))).reshape(-1)
            t0=time.time()
            for out in mps.tdvp_(psi, H, times=(0,0.7), dt=0.5, u=u, method=method, normalize=False, opts_svd={'tol':1e-14,'D_total':16}, opts_expmv={'hermitian':True,'tol':1e-13}):
                pass
            v1 = psi.to_tensor().to_numpy(legs=dict(enumerate(legs))).reshape(-1)
            # H dense in same basis? to_matrix fuses legs -> ordering differs; build H dense via to_tensor
            Ht = H.to_tensor().to_numpy(legs={k: (legs[k//2] if k%2==0 else legs[k//2].conj()) for k in range(2*N)})
            Hm = Ht.transpose([0,2,4,6,1,3,5,7]).reshape(2**N,2**N)
            ref = sla.expm(-u*0.7*Hm) @ v0
            print(sym, method, u, psi.get_bond_dimensions(), 'err', np.abs(v1-ref).max(), 'steps', out.steps, out.dt, out.tf, 'time %.2f'%(time.time()-t0))
