import numpy as np, itertools, yastn, yastn.tn.mps as mps
ops = yastn.operators.SpinlessFermions(sym='U1'); sp=ops.space()
def state(psi):
    """contract site tensors and central block by hand"""
    N=psi.N
    keys = sorted(psi.A.keys(), key=lambda k: (k if isinstance(k,int) else k[0]+0.5))
    ten = None
    for k in keys:
        A = psi.A[k]
        ten = A if ten is None else yastn.tensordot(ten, A, axes=(ten.ndim-1, 0))
    ten = ten.remove_leg(axis=0).remove_leg(axis=-1)
    return psi.factor*ten.to_numpy(legs={i:sp for i in range(N)}).reshape(-1)
N=4
I = mps.product_mpo(ops.I(), N)
ops.random_seed(0)
psi0 = mps.random_mps(I, n=2, D_total=4, dtype='complex128')
v0 = state(psi0)
acts=[]
for to in ['first','last']:
    for nz in [True,False]:
        acts.append(('canonize_',dict(to=to,normalize=nz)))
        for n in range(N): acts.append(('orthogonalize_site_',dict(n=n,to=to,normalize=nz)))
    acts.append(('absorb_central_',dict(to=to)))
for nz in [True,False]:
    acts.append(('diagonalize_central_',dict(opts_svd={'tol':1e-14},normalize=nz)))
worst_ray=0; worst_norm=0; nseq=0; rej=0
for seq in itertools.product(acts, repeat=2):
    psi = psi0.shallow_copy()
    allF=True; ok=True
    for name,kw in seq:
        try:
            getattr(psi,name)(**kw)
        except yastn.YastnError:
            rej+=1; ok=False; break
        if kw.get('normalize') is True: allF=False
        v = state(psi)
        ray = abs(abs(np.vdot(v0,v)) - np.linalg.norm(v0)*np.linalg.norm(v))/(np.linalg.norm(v0)*np.linalg.norm(v))
        worst_ray=max(worst_ray, ray)
        if allF: worst_norm=max(worst_norm, np.abs(v-v0).max())
    nseq+=1
print('seqs',nseq,'rej',rej,'ray',worst_ray,'equal',worst_norm)
# DMRG monotonicity
rng=np.random.default_rng(1)
terms=[]
for i in range(N-1):
    terms += [mps.Hterm(-1.0,(i,i+1),(ops.cp(),ops.c())), mps.Hterm(-1.0,(i+1,i),(ops.cp(),ops.c())), mps.Hterm(1.3,(i,i+1),(ops.n(),ops.n()))]
terms += [mps.Hterm(-0.7,(0,),(ops.n(),))]
H = mps.generate_mpo(I, terms)
for method, opts in [('1site',None),('2site',{'tol':1e-14,'D_total':16})]:
    for D in [1,2,4]:
        for seed in [0,1]:
            ops.random_seed(seed)
            psi = mps.random_mps(I, n=2, D_total=D)
            Es=[]
            for out in mps.dmrg_(psi, H, method=method, max_sweeps=5, iterator=True, opts_svd=opts):
                Es.append(out.energy)
            d = np.diff(Es)
            print(method, D, seed, 'maxincrease', d.max() if len(d) else None, Es[-1])
