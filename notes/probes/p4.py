import numpy as np, yastn, yastn.tn.fpeps as fpeps, yastn.tn.mps as mps, time, math
ops = yastn.operators.SpinlessFermions(sym='U1')
for dims in [(2,2),(2,3),(3,3)]:
    g = fpeps.SquareLattice(dims=dims, boundary='obc')
    occ = {s: (i%2) for i,s in enumerate(g.sites())}
    vecs = {s: ops.vec_n(occ[s]) for s in g.sites()}
    psi = fpeps.product_peps(g, vecs)
    t0=time.time()
    for k,b in enumerate(g.bonds()):
        gate = fpeps.gates.gate_nn_hopping(1, 0.1+0.3j*(k+1), ops.I(), ops.c(), ops.cp(), bond=b)
        psi.apply_gate_(gate)
    t1=time.time()
    T = psi.to_tensor()
    t2=time.time()
    print(dims, 'gates %.2f to_tensor %.2f'%(t1-t0,t2-t1), T.ndim, T.get_shape(), T.n, psi.get_bond_dimensions())
    env = fpeps.EnvCTM(psi, init='eye')
    t0=time.time()
    for _ in range(max(dims)): env.expand_outward_()
    t1=time.time()
    o = env.measure_1site(ops.n())
    t2=time.time()
    print('ctm expand %.2f m1 %.2f'%(t1-t0,t2-t1), sum(o.values()))
    t0=time.time()
    ebd = fpeps.EnvBoundaryMPS(psi, opts_svd={'D_total':64,'tol':1e-14}, setup='lrtb')
    o2 = ebd.measure_1site(ops.n())
    t1=time.time()
    print('bmps %.2f'%(t1-t0), max(abs(o[s]-o2[s]) for s in g.sites()))
    t0=time.time()
    nn = env.measure_nn(ops.cp(), ops.c())
    t1=time.time()
    print('ctm nn %.2f'%(t1-t0), len(nn))
    for which in ['NN','NN+','NN++','NNN','NNN+','NNN++']:
        try:
            t0=time.time()
            entu = fpeps.EnvNTU(psi, which=which)
            b = g.bonds()[0]
            dirn = psi.nn_bond_dirn(*b)
            s0,s1=b
            if dirn=='lr':
                Q0, R0 = psi[s0].qr(axes=((0, 1, 2, 4), 3), sQ=-1, Qaxis=3)
                Q1, R1 = psi[s1].qr(axes=((0, 2, 3, 4), 1), sQ=1, Qaxis=1, Raxis=-1)
            else:
                Q0, R0 = psi[s0].qr(axes=((0, 1, 3, 4), 2), sQ=1, Qaxis=2)
                Q1, R1 = psi[s1].qr(axes=((1, 2, 3, 4), 0), sQ=-1, Qaxis=0, Raxis=-1)
            gm = entu.bond_metric(Q0,Q1,s0,s1,dirn)
            G = gm.g
            Gm = G.fuse_legs(axes=((1,3),(0,2))) if G.ndim==4 else G
            print(which, type(gm).__name__, G.ndim, G.get_shape(), '%.2f'%(time.time()-t0))
        except Exception as e:
            print(which, 'err', type(e).__name__, e)
