import numpy as np, itertools, yastn, yastn.tn.fpeps as fpeps, scipy.linalg as sla
from jw import *
def dense_state(psi, sp, anc):
    T = psi.to_tensor()
    legs = T.get_legs()
    # embed system legs in full space
    emb = {}
    nsite = len(psi.sites())
    per = T.ndim // nsite
    for i in range(nsite):
        emb[per*i] = sp
    A = T.to_numpy(legs=emb)
    return A, per
for sym in ['U1','Z2']:
    ops = yastn.operators.SpinlessFermions(sym=sym)
    cfg=ops.config; sp=ops.space()
    for dims, bnd in [((2,2),'obc'),((1,3),'obc'),((3,1),'obc'),((2,2),'cylinder'),((3,2),'cylinder')]:
      for purif in [False, True]:
        g = fpeps.SquareLattice(dims=dims, boundary=bnd)
        sites = g.sites(); N=len(sites)
        if purif:
            vecs = {s: (ops.I()) for s in sites}  # infinite-T purification
        else:
            vecs = {s: ops.vec_n(i%2) for i,s in enumerate(sites)}
        psi = fpeps.product_peps(g, vecs)
        A0, per = dense_state(psi, sp, None)
        shp = A0.shape
        # system axes are per*i; move to front
        def apply(A, M):
            sysax = [per*i for i in range(N)]
            other = [i for i in range(A.ndim) if i not in sysax]
            B = A.transpose(sysax+other)
            sh = B.shape
            B = B.reshape(2**N, -1)
            B = M @ B
            B = B.reshape(sh)
            inv = np.argsort(sysax+other)
            return B.transpose(inv)
        worst=0
        A = A0
        k=0
        for b in list(g.bonds()) + [bb[::-1] for bb in g.bonds()]:
            k+=1
            step = 0.2+0.3j*k
            gate = fpeps.gates.gate_nn_hopping(1.0, step, ops.I(), ops.c(), ops.cp(), bond=b)
            psi.apply_gate_(gate)
            i0, i1 = sites.index(b[0]), sites.index(b[1])
            spaces=[sp]*N
            H = -1.0*(jw(ops.cp(), i0, spaces, cfg) @ jw(ops.c(), i1, spaces, cfg) + jw(ops.cp(), i1, spaces, cfg) @ jw(ops.c(), i0, spaces, cfg))
            A = apply(A, sla.expm(-step*H))
            An,_ = dense_state(psi, sp, None)
            worst = max(worst, np.abs(An-A).max())
        # asymmetric gate: exp(-step (mu0 n0 + 2 mu n1 + t hop))
        for b in list(g.bonds()) + [bb[::-1] for bb in g.bonds()]:
            Hloc = 0.3*yastn.fkron(ops.n(), ops.I(), sites=(0,1)) - 0.7*yastn.fkron(ops.I(), ops.n(), sites=(0,1)) \
                 + 0.5*yastn.fkron(ops.cp(), ops.c(), sites=(0,1)) + 0.5*yastn.fkron(ops.cp(), ops.c(), sites=(1,0))
            gate = fpeps.gates.gate_nn_exp(0.4j, ops.I(), Hloc, bond=b)
            psi.apply_gate_(gate)
            i0, i1 = sites.index(b[0]), sites.index(b[1])
            n0 = jw(ops.n(), i0, spaces, cfg); n1 = jw(ops.n(), i1, spaces, cfg)
            H = 0.3*n0 - 0.7*n1 + 0.5*(jw(ops.cp(), i0, spaces, cfg) @ jw(ops.c(), i1, spaces, cfg) + jw(ops.cp(), i1, spaces, cfg) @ jw(ops.c(), i0, spaces, cfg))
            A = apply(A, sla.expm(-0.4j*H))
            An,_ = dense_state(psi, sp, None)
            worst = max(worst, np.abs(An-A).max())
        print(sym, dims, bnd, 'purif' if purif else 'pure', 'per', per, 'shape', shp, 'err', worst, 'norm', np.linalg.norm(A))
