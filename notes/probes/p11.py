import numpy as np, itertools, yastn
def run(policy, dfus, ffus):
    cfg = yastn.make_config(sym='U1', tensordot_policy=policy, default_fusion=dfus, force_fusion=ffus)
    L = lambda s,t,D: yastn.Leg(cfg, s=s, t=t, D=D)
    l1=L(1,(0,1),(1,2)); l2=L(1,(-1,0,1),(1,2,1)); l3=L(-1,(0,1,2),(2,1,1)); l4=L(-1,(0,1),(2,1))
    rng=np.random.default_rng(3)
    a = yastn.zeros(cfg, legs=[l1,l2,l3,l4], n=1); a._data = rng.integers(-3,4,size=a._data.shape).astype(float)
    b = yastn.zeros(cfg, legs=[l3.conj(), l4.conj(), l1.conj()]); b._data = rng.integers(-3,4,size=b._data.shape).astype(float)
    out={}
    af = a.transpose((1,0,3,2)).fuse_legs(axes=((1,0),(3,2)))      # lazy + fuse default mode
    bf = b.fuse_legs(axes=((0,1),2))
    c = yastn.tensordot(af, bf, axes=(1,0))       # contract fused leg
    c = c.unfuse_legs(axes=0)
    out['c'] = (c.ndim, c.s, c.n, c.to_numpy(legs={0:l1,1:l2,2:l1.conj()}).tobytes())
    U,S,V = af.svd(axes=(0,1))
    rec = (U@S@V).unfuse_legs(axes=(0,1))
    out['svd'] = np.round(rec.to_numpy(legs=dict(enumerate([l1,l2,l3,l4]))),10).tobytes()
    out['S'] = np.round(np.sort(S.to_numpy().diagonal())[::-1],10).tobytes()
    d = af + af.conj().conj()
    out['add'] = d.unfuse_legs(axes=(0,1)).to_numpy(legs=dict(enumerate([l1,l2,l3,l4]))).tobytes()
    t = af.fuse_legs(axes=[(0,1)]).unfuse_legs(axes=0).unfuse_legs(axes=(0,1))
    out['nest'] = t.to_numpy(legs=dict(enumerate([l1,l2,l3,l4]))).tobytes()
    tr = yastn.tensordot(af, af.conj(), axes=((0,1),(0,1))).to_number()
    out['vd'] = float(tr)
    return out
ref = run('fuse_to_matrix','hard',None)
for p in ['fuse_to_matrix','fuse_contracted','no_fusion']:
    for d in ['hard','meta']:
        for f in [None,'hard','meta']:
            try:
                o = run(p,d,f)
                print(p,d,f, {k: o[k]==ref[k] for k in ref})
            except Exception as e:
                print(p,d,f,'EXC',type(e).__name__, e)
