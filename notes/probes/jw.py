import numpy as np, itertools, yastn
def leg_parities(leg, fermionic):
    """per basis index of dense leg: tuple of charges"""
    out=[]
    for t,D in zip(leg.t, leg.D):
        out += [t]*D
    return out
def fss_of(cfg):
    nsym = cfg.sym.NSYM
    f = cfg.fermionic
    if f is True: return (True,)*nsym
    if not f: return (False,)*nsym
    return tuple(f)
def string_op(space, charge, cfg):
    """diagonal matrix (-1)^{sum_f t_f * n_f} on local space for string of operator with charge n"""
    fss = fss_of(cfg)
    ts = leg_parities(space, fss)
    d = [(-1)**(sum(t[i]*charge[i] for i in range(len(fss)) if fss[i]) % 2) for t in ts]
    return np.diag(np.array(d, dtype=float))
def dense_op(op, space):
    return op.to_numpy(legs={0: space, 1: space.conj()})
def jw(op, site, spaces, cfg, order=None):
    """JW embedding of local op at 'site' in chain with local 'spaces'; order[pos]=rank in fermionic order"""
    N = len(spaces)
    if order is None: order = list(range(N))
    mats=[]
    for j in range(N):
        if j == site: mats.append(dense_op(op, spaces[j]))
        elif order[j] < order[site]: mats.append(string_op(spaces[j], op.n, cfg))
        else: mats.append(np.eye(sum(spaces[j].D)))
    M = mats[0]
    for m in mats[1:]: M = np.kron(M, m)
    return M
