import numpy as np, scipy.linalg as sla, yastn, itertools
cfg = yastn.make_config(sym='U1')
l = yastn.Leg(cfg, s=1, t=(-1,0,1), D=(3,4,3))
rng = np.random.default_rng(0)
def rt(legs, n=0, cplx=True):
    t = yastn.zeros(cfg, legs=legs, n=n, dtype='complex128' if cplx else 'float64')
    t._data = (rng.normal(size=t._data.shape) + (1j*rng.normal(size=t._data.shape) if cplx else 0)).astype(t._data.dtype); return t
M0 = rt([l, l.conj()])
v = rt([l, yastn.Leg(cfg, s=-1, t=(0,), D=(1,))], n=0)   # vector in sector 0 -> dim 4... use rank2 with dummy leg
for kind in ['herm','gen','antiherm']:
    M = {'herm': M0 + M0.H, 'gen': M0, 'antiherm': M0 - M0.H}[kind]
    f = lambda x: M @ x
    Md = M.to_numpy(legs={0:l,1:l.conj()}); vd = v.to_numpy(legs={0:l}).reshape(-1)
    worst={}
    for t in [0, 1e-3, -0.1, 1j, -2j, 1+1j, 30j if kind=='herm' else 3, 300j if kind=='herm' else -3]:
        for tol in [1e-6,1e-10,1e-13]:
            for ncv in [1,2,5,40]:
                for nz in [False, True]:
                    r, info = yastn.expmv(f, v, t, tol=tol, ncv=ncv, hermitian=(kind=='herm'), normalize=nz, return_info=True)
                    rd = r.to_numpy(legs={0:l}).reshape(-1)
                    ref = sla.expm(t*Md)@vd
                    if nz: ref = ref/np.linalg.norm(ref)
                    err = np.linalg.norm(rd-ref)/max(np.linalg.norm(ref),1e-300)
                    key=(tol,)
                    worst[key]=max(worst.get(key,0), err/ (tol*max(1,info['steps'])))
    print(kind, {k: float('%.2g'%v_) for k,v_ in worst.items()})
