import numpy as np, itertools, time, yastn, yastn.tn.fpeps as fpeps, yastn.tn.mps as mps
from jw import *
# C20 timing
t0=time.time(); n=0; acc=0
for pat in itertools.product(range(3), repeat=9):
    n+=1
    try:
        fpeps.RectangularUnitcell(pattern=[list(pat[0:3]),list(pat[3:6]),list(pat[6:9])]); acc+=1
    except yastn.YastnError: pass
    if n>=4000: break
print('pattern ctor us', (time.time()-t0)/n*1e6, 'accepted', acc, 'of', n)
# C07 measure_2site all pairs, charged ops
for sym in ['Z2','U1']:
    ops = yastn.operators.SpinlessFermions(sym=sym); cfg=ops.config; sp=ops.space()
    N=4; I=mps.product_mpo(ops.I(),N); spaces=[sp]*N
    ops.random_seed(0)
    nk = 2 if sym=='U1' else 0
    ket = mps.random_mps(I, n=nk, D_total=4, dtype='complex128')
    dv = lambda psi: psi.to_tensor().to_numpy(legs={i:sp for i in range(N)}).reshape(-1)
    vk = dv(ket)
    O={'c':ops.c(),'cp':ops.cp(),'n':ops.n()}
    worst=0; cnt=0
    for a,b in itertools.product(O,repeat=2):
        ntot = cfg.sym.add_charges(O[a].n, O[b].n)
        nb = cfg.sym.add_charges((nk,), ntot)
        if sym=='U1' and not (0<=nb[0]<=N): continue
        bra = mps.random_mps(I, n=nb[0], D_total=4, dtype='complex128')
        vb = dv(bra)
        res = mps.measure_2site(bra, O[a], O[b], ket, bonds='a')
        for (i,j),val in res.items():
            ref = np.vdot(vb, jw(O[a],i,spaces,cfg) @ jw(O[b],j,spaces,cfg) @ vk)
            worst=max(worst,abs(ref-val)); cnt+=1
        # nsite triples
        for sites in itertools.product(range(N),repeat=2):
            val = mps.measure_nsite(bra, O[a], O[b], ket=ket, sites=sites)
            ref = np.vdot(vb, jw(O[a],sites[0],spaces,cfg) @ jw(O[b],sites[1],spaces,cfg) @ vk)
            worst=max(worst,abs(ref-val)); cnt+=1
    print(sym,'2site/nsite',cnt,worst)
    # rdm operational
    ket.canonize_(to='first'); vk=dv(ket)
    worst=0;cnt=0
    for sites in itertools.permutations(range(N),2):
        rho = mps.rdm(ket,*sites)
        for a,b in itertools.product(['c','cp','n'],repeat=2):
            if cfg.sym.add_charges(O[a].n,O[b].n)!=cfg.sym.zero(): continue
            r = yastn.einsum('abcd,badc', rho, yastn.fkron(O[a],O[b])).item()
            ref = np.vdot(vk, jw(O[a],sites[0],spaces,cfg)@jw(O[b],sites[1],spaces,cfg)@vk)
            worst=max(worst,abs(r-ref));cnt+=1
    print(sym,'rdm',cnt,worst)
