import time, numpy as np, yastn
cfg = yastn.make_config(sym='U1')
l = yastn.Leg(cfg, s=1, t=(-1,0,1), D=(1,2,1))
a = yastn.rand(cfg, legs=[l, l.conj(), l, l.conj()])
b = yastn.rand(cfg, legs=[l, l.conj(), l])
t=time.time()
for _ in range(200):
    c = yastn.tensordot(a, b, axes=((1,2),(0,1)))
print('tensordot warm', (time.time()-t)/200*1e3, 'ms')
yastn.set_cache_maxsize(0)
t=time.time()
for _ in range(200):
    c = yastn.tensordot(a, b, axes=((1,2),(0,1)))
print('tensordot nocache', (time.time()-t)/200*1e3, 'ms')
t=time.time()
for _ in range(200):
    x = a.to_numpy()
print('to_numpy', (time.time()-t)/200*1e3, 'ms')
t=time.time()
for _ in range(200):
    x = a.fuse_legs(axes=((0,1),(2,3))).svd()
print('fuse+svd', (time.time()-t)/200*1e3, 'ms')
# candidate: diag with trans
m = yastn.rand(cfg, legs=[l, l.conj()])
mt = m.T
print('mT s', mt.s, 'diag(mT).s', mt.diag().s, mt.diag().get_legs())
d = yastn.rand(cfg, legs=[l, l.conj()], isdiag=True)
print('d.T.s', d.T.s, 'd.T.diag().s', d.T.diag().s)
# to_raw_tensor with trans
cfgd = yastn.make_config(sym='none')
r = yastn.rand(cfgd, D=(2,3))
print(r.T.to_raw_tensor().shape, r.T.to_numpy().shape)
print((2,3) in [r.T.get_shape()], r.T.get_shape())
# __contains__ with trans
q = yastn.rand(cfg, legs=[l, l.conj(), l], n=1)
print(q.struct.t[:3], q.transpose((2,0,1)).struct.t[:3])
k = q.struct.t[0]
print(k in q, k in q.transpose((1,0,2)), (k[1],k[0],k[2]) in q.transpose((1,0,2)))
