import numpy as np, itertools, yastn, yastn.tn.mps as mps
from jw import *
for sym in ['Z2','U1']:
    ops = yastn.operators.SpinlessFermions(sym=sym)
    cfg = ops.config; sp = ops.space()
    O = {'I':ops.I(),'c':ops.c(),'cp':ops.cp(),'n':ops.n()}
    # fkron
    bad=0; tot=0
    for k in [2,3]:
        spaces=[sp]*k
        for names in itertools.product(O, repeat=k):
            for sites in itertools.permutations(range(k)):
                T = yastn.fkron(*[O[x] for x in names], sites=sites)
                legs = {}
                for i in range(k): legs[2*i]=sp; legs[2*i+1]=sp.conj()
                A = T.to_numpy(legs=legs)
                A = A.transpose(list(range(0,2*k,2))+list(range(1,2*k,2))).reshape(2**k,2**k)
                ref = np.eye(2**k)
                for nm, s in zip(names, sites):
                    ref = ref @ jw(O[nm], s, spaces, cfg)
                tot+=1
                if np.abs(A-ref).max()>1e-13: bad+=1
    print(sym,'fkron', tot, bad)
    # generate_mpo
    N=3; spaces=[sp]*N
    I = mps.product_mpo(ops.I(), N)
    bad=tot=0
    for k in [1,2,3]:
        for names in itertools.product(['c','cp','n'], repeat=k):
            for pos in itertools.product(range(N), repeat=k):
                try:
                    H = mps.generate_mpo(I, [mps.Hterm(0.5, pos, [O[x] for x in names])])
                except yastn.YastnError as e:
                    continue
                T = H.to_tensor()
                legs={}
                for i in range(N): legs[2*i]=sp; legs[2*i+1]=sp.conj()
                A = T.to_numpy(legs=legs).transpose(list(range(0,2*N,2))+list(range(1,2*N,2))).reshape(2**N,2**N)
                ref = 0.5*np.eye(2**N)
                for nm,s in zip(names,pos): ref = ref @ jw(O[nm], s, spaces, cfg)
                tot+=1
                if np.abs(A-ref).max()>1e-13:
                    bad+=1
                    if bad<4: print('BAD', names, pos, np.abs(A).max(), np.abs(ref).max())
    print(sym,'generate_mpo', tot, bad)
