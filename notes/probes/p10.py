import numpy as np, itertools, yastn
from collections import Counter
cfg = yastn.make_config(sym='U1')
inf=float('inf')
def nonincr(n, alpha):
    return [t for t in itertools.product(alpha, repeat=n) if all(t[i]>=t[i+1] for i in range(n-1))]
def ref(spec, D_total, D_block, tol, tol_block):
    surv={}
    for t, vals in spec.items():
        m = max(vals) if vals else 0
        cnt = sum(1 for v in vals if v > tol_block*m)
        Db = D_block.get(t, 0) if isinstance(D_block, dict) else D_block
        k = int(min(Db, cnt))
        surv[t] = sorted(vals, reverse=True)[:k]
    E = [v for vs in surv.values() for v in vs]
    mE = max(E) if E else 0
    K = int(min(D_total, sum(1 for v in E if v > tol*mE)))
    return surv, sorted(E, reverse=True)[:K]
bad=tot=amb=0
alpha=(3,2,1,0)
sizes=[(1,),(2,),(3,),(1,2),(2,2),(3,1),(2,3)]
for sz in sizes:
    for vals in itertools.product(*[nonincr(n,alpha) for n in sz]):
        spec = {(i,): list(v) for i,v in enumerate(vals)}
        S = yastn.Tensor(config=cfg, isdiag=True)
        for (t,),v in spec.items():
            S.set_block(ts=(t,t), Ds=(len(v),len(v)), val=np.array(v,dtype=float))
        for D_total in [0,1,2,3,5,inf]:
          for D_block in [0,1,2,inf,{(0,):1}]:
            for tol in [0,0.3,1/3,0.5,1]:
              for tol_block in [0,0.5]:
                tot+=1
                m = S.truncation_mask(tol=tol, tol_block=tol_block, D_block=D_block, D_total=D_total)
                surv, kept_ref = ref(spec, D_total, D_block, tol, tol_block)
                kept=[]; ok=True
                for (t,),v in spec.items():
                    mk = np.asarray(m[(t,t)]).astype(bool)
                    kv = [x for x,b in zip(v,mk) if b]; dv=[x for x,b in zip(v,mk) if not b]
                    if kv and dv and max(dv)>min(kv): ok=False
                    if Counter(kv) - Counter(surv[(t,)]): ok=False
                    kept+=kv
                # boundary ambiguity: equality with tol*max
                if sorted(kept,reverse=True)!=kept_ref: ok=False
                if not ok:
                    bad+=1
                    if bad<6: print('BAD', spec, D_total, D_block, tol, tol_block, 'kept', kept, 'ref', kept_ref)
print(tot, bad)
