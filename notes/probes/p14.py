import numpy as np, itertools, time, yastn, yastn.tn.fpeps as fpeps, scipy.linalg as sla
from jw import *
ops = yastn.operators.SpinlessFermions(sym='U1'); cfg=ops.config; sp=ops.space()
def dense_state(psi):
    T = psi.to_tensor(); N=len(psi.sites()); per=T.ndim//N
    return T.to_numpy(legs={per*i: sp for i in range(N)}), per
for dims in [(2,2),(2,3)]:
    g = fpeps.SquareLattice(dims=dims, boundary='obc'); sites=g.sites(); N=len(sites); spaces=[sp]*N
    for envname in ['NN','NN+','NNN++','CTM','BP']:
        psi = fpeps.product_peps(g, {s: ops.vec_n(i%2) for i,s in enumerate(sites)})
        for k,b in enumerate(g.bonds()):
            psi.apply_gate_(fpeps.gates.gate_nn_hopping(1, 0.3+0.2j*(k+1), ops.I(), ops.c(), ops.cp(), bond=b))
        A,per = dense_state(psi)
        if envname=='CTM':
            env = fpeps.EnvCTM(psi, init='eye'); [env.expand_outward_() for _ in range(max(dims))]
        elif envname=='BP':
            env = fpeps.EnvBP(psi); env.iterate_(max_sweeps=10)
        else:
            env = fpeps.EnvNTU(psi, which=envname)
        errs=[]; worst=0
        for b in g.bonds():
            step=0.2j
            gate = fpeps.gates.gate_nn_hopping(0.7, step, ops.I(), ops.c(), ops.cp(), bond=b)
            try:
                infos = fpeps.evolution_step_(env, [gate], opts_svd={'D_total':64,'tol':1e-14})
            except Exception as e:
                print(envname, 'EXC', type(e).__name__, e); break
            i0,i1 = sites.index(b[0]), sites.index(b[1])
            H = -0.7*(jw(ops.cp(),i0,spaces,cfg)@jw(ops.c(),i1,spaces,cfg)+jw(ops.cp(),i1,spaces,cfg)@jw(ops.c(),i0,spaces,cfg))
            sysax=[per*i for i in range(N)]; other=[i for i in range(A.ndim) if i not in sysax]
            B=A.transpose(sysax+other); sh=B.shape; B=(sla.expm(-step*H)@B.reshape(2**N,-1)).reshape(sh); A=B.transpose(np.argsort(sysax+other))
            An,_=dense_state(env.psi.ket if hasattr(env.psi,'ket') else env.psi)
            ray = 1-abs(np.vdot(A.ravel(),An.ravel()))/(np.linalg.norm(A)*np.linalg.norm(An))
            worst=max(worst,ray)
            errs += [i.truncation_error for i in infos]
            A = An*np.linalg.norm(A)/np.linalg.norm(An)*np.exp(1j*np.angle(np.vdot(An.ravel(),A.ravel())))
        print(dims, envname, 'ray', worst, 'trunc_err max', max(errs) if errs else None, 'min_eig', min(i.min_eigenvalue for i in infos) if errs and infos[0].min_eigenvalue is not None else None)
