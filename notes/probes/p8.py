import sys, functools, yastn, numpy as np
import yastn.tn.mps as mps
# (1) which namespaces bind lru-cached functions
cached = {}
for mname, mod in list(sys.modules.items()):
    if not mname.startswith('yastn'): continue
    for k, v in list(vars(mod).items()):
        if hasattr(v, 'cache_info') and hasattr(v, '__wrapped__'):
            cached.setdefault(v.__wrapped__.__qualname__, []).append(mname)
for k,v in sorted(cached.items()): print(k, v)
print(len(cached))
# (2) scripted cut for sample
class Cut:
    def __init__(self, target): self.target=target; self.count=0
    def __gt__(self, other):  # apr < cut  -> cut > apr
        self.count += 1
        return self.count <= self.target
ops = yastn.operators.Spin12(sym='Z2')
I = mps.product_mpo(ops.I(), 3)
ops.random_seed(0)
psi = mps.random_mps(I, D_total=3)
import yastn.backend.backend_np as bk
orig = bk.rand
N=3
vecs = [ops.vec_z(1), ops.vec_z(-1)]
legs = {i: ops.space() for i in range(N)}
psi.canonize_(to='first')
v = psi.to_tensor().to_numpy(legs=legs)
v = v/np.linalg.norm(v)
print('dense probs', (np.abs(v)**2).reshape(-1), ops.space())
tot=0
import itertools
for conf in itertools.product(range(2), repeat=N):
    it = iter(conf)
    def fake_rand(D, **kw):
        return [Cut(next(it))]
    bk.rand = fake_rand
    try:
        s, p = mps.sample(psi, vecs, number=1, return_probabilities=True)
    finally:
        bk.rand = orig
    print(conf, s, p); tot+=p[0]
print(tot)
