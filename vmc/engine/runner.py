"""
Generic bounded-exhaustive runner ("yastn model checker" engine).

A check module (vmc.props.cXX) provides

    PROPERTY_ID, LEVEL ('exploration' | 'model_checking'), RULE (str), ASSUMPTIONS (list[str])
    groups(tier, seed) -> list[dict]      every dict is JSON-able, has an int 'level'
    run_group(group, acc)                 explores the group exhaustively, reports to acc
    replay(case) -> list[str]             re-runs one case descriptor; [] means the property held
    finalize(summary, tier) -> list[str]  optional: vacuity guards (harness errors, not violations)

The runner shards the groups over long-lived worker processes, merges their accumulators in
enumeration order, writes the evidence file, turns violations into replay files, confirms them
in fresh processes, applies /verif/known_findings.json and sets the exit status.
"""
from __future__ import annotations

import collections
import hashlib
import importlib
import json
import multiprocessing as mp
import os
import resource
import subprocess
import sys
import time
import traceback

ROOT = os.path.dirname(os.path.dirname(os.path.dirname(os.path.abspath(__file__))))
MAX_VIOL_PER_GROUP = 5
MAX_SAMPLES_PER_GROUP = 2


def h64(obj) -> int:
    """Stable 64-bit hash of a JSON-able / repr-able object (independent of PYTHONHASHSEED)."""
    if not isinstance(obj, (bytes, bytearray)):
        obj = repr(obj).encode()
    return int.from_bytes(hashlib.blake2b(obj, digest_size=8).digest(), 'little')


class OutOfTime(Exception):
    pass


class Acc:
    """Per-group accumulator living in the worker."""

    def __init__(self, deadline, seed, tier):
        self.deadline = deadline
        self.seed = seed
        self.tier = tier
        self.evaluations = 0
        self.nontrivial = set()
        self.outcomes = set()
        self.violations = []
        self.n_violations = 0
        self.samples = []
        self.cnt = collections.Counter()
        self.states = 0
        self.transitions = 0
        self.capped = False
        self._tick = 0
        self._first_key = None

    def ev(self, key=None, nontrivial=True, outcome=None):
        self.evaluations += 1
        if self._first_key is None and key is not None:
            self._first_key = str(key)[:600]
        if nontrivial and key is not None:
            self.nontrivial.add(h64(key))
        if outcome is not None:
            self.outcomes.add(h64(outcome))

    def fail(self, case, msg, key=None):
        """case: JSON-able descriptor sufficient for replay(); key: stable finding key (optional)."""
        self.n_violations += 1
        if len(self.violations) < MAX_VIOL_PER_GROUP:
            self.violations.append({'case': case, 'msg': str(msg)[:2000], 'key': key})

    def sample(self, case):
        if len(self.samples) < MAX_SAMPLES_PER_GROUP:
            self.samples.append(case)

    def out_of_time(self):
        self._tick += 1
        if self._tick & 15:
            return False
        if time.time() > self.deadline:
            self.capped = True
            return True
        return False

    def check_time(self):
        if self.out_of_time():
            raise OutOfTime()

    def result(self):
        return {'evaluations': self.evaluations, 'nontrivial': self.nontrivial, 'outcomes': self.outcomes,
                'violations': self.violations, 'n_violations': self.n_violations,
                'samples': self.samples or ([{'case_descriptor': self._first_key}] if self._first_key else []),
                'cnt': dict(self.cnt), 'states': self.states, 'transitions': self.transitions,
                'capped': self.capped}


_W = {}


def _worker_init(modname, seed, tier, deadline, mem_gib):
    try:
        lim = int(mem_gib * 2 ** 30)
        resource.setrlimit(resource.RLIMIT_AS, (lim, lim))
    except Exception:
        pass
    _W['mod'] = importlib.import_module(modname)
    _W['seed'] = seed
    _W['tier'] = tier
    _W['deadline'] = deadline


def _worker_run(item):
    idx, group = item
    acc = Acc(_W['deadline'], _W['seed'], _W['tier'])
    t0 = time.time()
    if t0 > acc.deadline:
        acc.capped = True
        r = acc.result()
        r.update(idx=idx, wall=0.0, skipped=True)
        return r
    try:
        _W['mod'].run_group(group, acc)
    except OutOfTime:
        acc.capped = True
    except MemoryError:
        acc.cnt['uncovered_memory_error'] += 1
        acc.capped = True
    except Exception:  # a crash of the driver on this tree: reported, never swallowed
        acc.fail({'group': group, 'crash': True}, 'driver crashed in group:\n' + traceback.format_exc()[-1500:],
                 key='crash')
    r = acc.result()
    r.update(idx=idx, wall=time.time() - t0, skipped=False)
    return r


def load_findings():
    path = os.path.join(ROOT, 'known_findings.json')
    if not os.path.exists(path):
        return []
    with open(path) as f:
        return json.load(f).get('findings', [])


def _json_default(o):
    try:
        import numpy as np
        if isinstance(o, np.integer):
            return int(o)
        if isinstance(o, np.floating):
            return float(o)
        if isinstance(o, np.ndarray):
            return o.tolist()
    except Exception:
        pass
    if isinstance(o, (set, frozenset)):
        return sorted(o)
    if isinstance(o, complex):
        return {'re': o.real, 'im': o.imag}
    return repr(o)


def dumps(o, **kw):
    return json.dumps(o, default=_json_default, **kw)


def run_check(modname, tier='quick', seed=0, budget=None, nproc=None):
    mod = importlib.import_module(modname)
    pid = mod.PROPERTY_ID
    t0 = time.time()
    if budget is None:
        budget = float(os.environ.get('VERIF_BUDGET', getattr(mod, 'BUDGET', {}).get(tier, 150 if tier == 'quick' else 900)))
    deadline = t0 + budget
    nproc = nproc or int(os.environ.get('VERIF_NPROC', min(16, os.cpu_count() or 1)))
    mem_gib = float(os.environ.get('VERIF_MEM_GIB', getattr(mod, 'MEM_GIB', 6)))

    rdir0 = os.path.join(ROOT, 'replays', pid)
    if os.path.isdir(rdir0):
        for fn in os.listdir(rdir0):
            if fn.endswith('.json'):
                os.unlink(os.path.join(rdir0, fn))
    groups = list(mod.groups(tier, seed))
    order = sorted(range(len(groups)), key=lambda i: (groups[i].get('level', 0), i))
    items = [(k, groups[i]) for k, i in enumerate(order)]

    results = [None] * len(items)
    if nproc == 1 or len(items) <= 1:
        _worker_init(modname, seed, tier, deadline, 1e6)
        for it in items:
            results[it[0]] = _worker_run(it)
    else:
        ctx = mp.get_context('fork')
        with ctx.Pool(min(nproc, len(items)), initializer=_worker_init,
                      initargs=(modname, seed, tier, deadline, mem_gib)) as pool:
            for r in pool.imap_unordered(_worker_run, items, chunksize=1):
                results[r['idx']] = r

    # merge in enumeration order
    evaluations = states = transitions = nviol = 0
    nontrivial, outcomes = set(), set()
    cnt = collections.Counter()
    violations, samples = [], []
    levels = collections.OrderedDict()
    slow = sorted(((r['wall'], g) for (k, g), r in zip(items, results)), key=lambda x: -x[0])[:3]
    for (k, g), r in zip(items, results):
        lv = g.get('level', 0)
        L = levels.setdefault(lv, {'groups': 0, 'completed': 0, 'capped': 0, 'evaluations': 0})
        L['groups'] += 1
        L['evaluations'] += r['evaluations']
        if r['capped']:
            L['capped'] += 1
        else:
            L['completed'] += 1
        evaluations += r['evaluations']
        states += r['states']
        transitions += r['transitions']
        nviol += r['n_violations']
        nontrivial |= r['nontrivial']
        outcomes |= r['outcomes']
        cnt.update(r['cnt'])
        violations.extend(r['violations'])
        if len(samples) < 6:
            samples.extend(r['samples'][:1])
    exhaustive = all(L['capped'] == 0 for L in levels.values())
    completed_levels = [lv for lv, L in levels.items() if L['capped'] == 0]

    summary = {'evaluations': evaluations, 'distinct_nontrivial': len(nontrivial), 'outcomes': len(outcomes),
               'states': states, 'transitions': transitions, 'cnt': dict(cnt), 'levels': levels,
               'exhaustive': exhaustive, 'tier': tier, 'n_groups': len(groups)}

    # known findings
    findings = [f for f in load_findings() if f.get('property') == pid]
    known = {f['key']: f for f in findings if f.get('status') == 'known'}
    new_viol, known_hit = [], collections.OrderedDict()
    for v in violations:
        if v.get('key') is not None and v['key'] in known:
            known_hit.setdefault(v['key'], v)
        else:
            new_viol.append(v)

    harness_errors, capped_warnings = [], []
    if hasattr(mod, 'finalize') and not new_viol:
        try:
            harness_errors = list(mod.finalize(summary, tier) or [])
        except Exception:
            harness_errors = ['finalize crashed: ' + traceback.format_exc()[-800:]]
        if not exhaustive and harness_errors and not any('crashed' in h for h in harness_errors):
            # the time budget ended some groups early (slow or loaded machine): minimum-coverage guards describe a complete
            # run; the evidence reports the cap (exhaustive: false) and the guards are shown as warnings
            capped_warnings, harness_errors = harness_errors, []

    # replay files and confirmation
    replay_paths = []
    for v in new_viol[:3]:
        rdir = os.path.join(ROOT, 'replays', pid)
        os.makedirs(rdir, exist_ok=True)
        body = {'property_id': pid, 'module': modname, 'case': v['case'], 'msg': v['msg'], 'key': v.get('key'),
                'seed': seed}
        sha = hashlib.sha1(dumps(body, sort_keys=True).encode()).hexdigest()[:12]
        path = os.path.join(rdir, sha + '.json')
        with open(path, 'w') as f:
            f.write(dumps(body, indent=1, sort_keys=True))
        conf = []
        if not v['case'].get('crash') and os.environ.get('VERIF_NO_CONFIRM') != '1':
            for _ in range(2):
                try:
                    p = subprocess.run([sys.executable, '-m', 'vmc.cli', pid, '--replay', path, '--quiet'],
                                       cwd=ROOT, capture_output=True, text=True, timeout=600)
                    conf.append((p.returncode, p.stdout.strip()[-600:]))
                except Exception as e:  # pragma: no cover
                    conf.append((-1, repr(e)))
            body['fresh_process_replays'] = conf
            body['reproduced'] = all(c[0] == 1 for c in conf)
            body['deterministic'] = len(set(conf)) == 1
            with open(path, 'w') as f:
                f.write(dumps(body, indent=1, sort_keys=True))
        replay_paths.append(path)

    wall = time.time() - t0
    cov = {
        'evaluations': int(evaluations),
        'distinct_nontrivial': int(len(nontrivial)),
        'rule': mod.RULE,
        'samples': samples[:6] if samples else [],
        'exhaustive': bool(exhaustive),
        'distinct_outcomes': int(len(outcomes)),
        'bound_levels': {str(k): v for k, v in levels.items()},
        'levels_completed': completed_levels,
        'counters': dict(sorted(cnt.items())),
        'groups': len(groups),
        'budget_s': budget,
        'known_findings_seen': list(known_hit.keys()),
    }
    if mod.LEVEL == 'model_checking':
        cov['states'] = int(states)
        cov['transitions'] = int(transitions)
        # the implementation itself is explored: every transition IS an execution of the real code,
        # there is no separate model whose traces need replaying.
        cov['traces_validated_against_impl'] = int(transitions)
    if hasattr(mod, 'coverage_extra'):
        try:
            cov.update(mod.coverage_extra(summary, tier))
        except Exception:
            harness_errors.append('coverage_extra crashed: ' + traceback.format_exc()[-800:])
    ev = {'property_id': pid, 'tier': tier, 'seed': int(seed), 'level': mod.LEVEL, 'coverage': cov,
          'assumptions': list(getattr(mod, 'ASSUMPTIONS', [])), 'wall_s': round(wall, 2),
          'violations': int(len(new_viol))}
    os.makedirs(os.path.join(ROOT, 'evidence'), exist_ok=True)
    evpath = os.path.join(ROOT, 'evidence', pid + '.json')
    with open(evpath, 'w') as f:
        f.write(dumps(ev, indent=1))
    ok_schema, schema_msg = validate_evidence(evpath)

    print(f"[{pid}] tier={tier} seed={seed} groups={len(groups)} evaluations={evaluations} "
          f"distinct_nontrivial={len(nontrivial)} outcomes={len(outcomes)} states={states} "
          f"transitions={transitions} exhaustive={exhaustive} wall={wall:.1f}s")
    for lv, L in levels.items():
        print(f"[{pid}]   level {lv}: groups {L['completed']}/{L['groups']} completed, "
              f"{L['capped']} capped, evaluations={L['evaluations']}")
    if os.environ.get('VERIF_VERBOSE'):
        for w, g in slow:
            print(f"[{pid}]   slowest group {w:.1f}s: {dumps(g)[:200]}")
    if cnt:
        print(f"[{pid}]   counters: " + ', '.join(f'{k}={v}' for k, v in sorted(cnt.items())))
    for key, v in known_hit.items():
        print(f"KNOWN-FINDING: property={pid} {known[key].get('what', key)}")
    if not ok_schema:
        print(f"[{pid}] HARNESS-ERROR evidence does not validate: {schema_msg}")
    for he in harness_errors:
        print(f"[{pid}] HARNESS-ERROR {he}")
    for he in capped_warnings:
        print(f"[{pid}] WARNING (capped run, coverage below the guard of a complete run): {he}")
    if new_viol:
        for v, path in zip(new_viol, replay_paths):
            print(f"[{pid}] violation: {v['msg'][:600]}")
            print(f"VIOLATION property={pid} replay={path}")
        if len(new_viol) > len(replay_paths):
            print(f"[{pid}] ... {nviol} violating cases in total")
        return 1
    if harness_errors or not ok_schema:
        return 2
    return 0


def validate_evidence(path):
    schema = '/root/.vp/EVIDENCE.schema.json'
    if not os.path.exists(schema):
        schema = os.path.join(ROOT, 'vmc', 'engine', 'EVIDENCE.schema.json')
    code = ("import json,sys,jsonschema;"
            "jsonschema.validate(json.load(open(sys.argv[1])), json.load(open(sys.argv[2])))")
    for exe in ('python3-vt', '/opt/veriftools/pyvenv/bin/python'):
        try:
            p = subprocess.run([exe, '-c', code, path, schema], capture_output=True, text=True, timeout=60)
        except FileNotFoundError:
            continue
        if p.returncode == 0:
            return True, ''
        if 'No module named' in p.stderr:
            continue
        return False, p.stderr.strip()[-500:]
    return True, 'validator unavailable'


def run_replay(modname, path, quiet=False):
    mod = importlib.import_module(modname)
    with open(path) as f:
        body = json.load(f)
    case = dict(body['case'])
    case.setdefault('seed', body.get('seed', 0))
    msgs = mod.replay(case)
    if msgs:
        if not quiet:
            print(f"[{mod.PROPERTY_ID}] replay reproduces the violation:")
        for m in msgs[:5]:
            print('  ' + str(m)[:600])
        print(f"VIOLATION property={mod.PROPERTY_ID} replay={path}")
        return 1
    if not quiet:
        print(f"[{mod.PROPERTY_ID}] replay: property holds on this case")
    return 0
