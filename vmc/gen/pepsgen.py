"""
PEPS alphabet for C11/C12 (and the container parts of C15/C17): finite lattices, product states (pure and
purified), gate catalogue with a dense Jordan-Wigner reference for every gate, dense read-out of a finite PEPS.

Conventions (all probed on the unchanged tree, notes/probes/p7.py and DESIGN C11):
 * fermionic order of a finite SquareLattice = order of geometry.sites() = (ny major, nx minor) = order of the
   system legs of Peps.to_tensor();
 * to_tensor() returns legs (sys_0, anc_0, sys_1, anc_1, ...); gates act on system legs only, the ancilla / auxiliary
   charge legs are spectators of the dense reference;
 * a gate on sites (s_0, .., s_k) built from a Hamiltonian H(op at s_0, .., op at s_k) acts as expm(-step H) with every
   local operator replaced by its Jordan-Wigner embedding at the lattice index of its site, irrespective of the
   orientation of the bond; an MPO gate sum_k A_k(0) B_k(1) C_k(2) (ordered products in the MPO's own order) acts as
   sum_k A_k(s_0) B_k(s_1) C_k(s_2).
"""
import itertools

import numpy as np
import scipy.linalg
import yastn
import yastn.tn.fpeps as fpeps
import yastn.tn.mps as mps

from vmc.models import jw as JW
from vmc.gen import mpsgen as MG

PEPS_FAMILIES = [('spinless', 'Z2'), ('spinless', 'U1'), ('spinful', 'Z2'), ('spinful', 'U1xU1'), ('spinful', 'U1xU1xZ2'),
                 ('spin12', 'dense'), ('spin12', 'Z2'), ('spin12', 'U1'), ('tJ', 'U1xU1xZ2'), ('tJ', 'Z2')]

STEPS = [0.1, -0.2, 0.3j, 0.2 + 0.1j]
PARAMS = [0, 0.5, -1.3]


class PLocal(MG.Local):
    """local space with the named operators used by the gate catalogue"""

    def __init__(self, fam, sym):
        super().__init__(fam, sym)
        ops = self.ops
        if fam == 'spin12':
            self.O.update({'sz': ops.sz(), 'sp': ops.sp(), 'sm': ops.sm()})
            if sym in ('dense', 'Z2'):
                self.O['x'] = ops.x()
        if fam == 'tJ':
            self.O.update({'nd': ops.n('d')})
        self.dn = {k: JW.dense_op(v, self.space) for k, v in self.O.items()}

    def basis_vectors(self):
        ops, fam = self.ops, self.fam
        if fam == 'spinless':
            return [ops.vec_n(0), ops.vec_n(1)]
        if fam == 'spinful':
            return [ops.vec_n((0, 0)), ops.vec_n((1, 0)), ops.vec_n((0, 1)), ops.vec_n((1, 1))]
        if fam == 'tJ':
            return [ops.vec_n((0, 0)), ops.vec_n((1, 0)), ops.vec_n((0, 1))]
        if fam == 'spin12':
            return [ops.vec_z(1), ops.vec_z(-1)]
        raise KeyError(fam)


def lattice(dims, boundary='obc'):
    return fpeps.SquareLattice(dims=tuple(dims), boundary=boundary)


def site_index(g):
    sites = [tuple(s) for s in g.sites()]
    Nx, Ny = g.Nx, g.Ny
    assert sites == [(nx, ny) for ny in range(Ny) for nx in range(Nx)], sites
    return {s: k for k, s in enumerate(sites)}


def bonds_both(g):
    out = []
    for b in g.bonds():
        b = (tuple(b[0]), tuple(b[1]))
        if b[0] == b[1]:
            continue
        out += [b, b[::-1]]
    return out


def paths3(g):
    sites = [tuple(s) for s in g.sites()]
    out = []
    for s0 in sites:
        for d1 in 'tlbr':
            s1 = g.nn_site(s0, d1)
            if s1 is None or tuple(s1) == s0:
                continue
            for d2 in 'tlbr':
                s2 = g.nn_site(s1, d2)
                if s2 is None or tuple(s2) in (s0, tuple(s1)):
                    continue
                p = (s0, tuple(s1), tuple(s2))
                if p not in out:
                    out.append(p)
    return out


def paths(g, length):
    """self-avoiding nearest-neighbour paths of `length` sites"""
    sites = [tuple(s) for s in g.sites()]
    cur = [(s,) for s in sites]
    for _ in range(length - 1):
        nxt = []
        for p in cur:
            for d in 'tlbr':
                s = g.nn_site(p[-1], d)
                if s is None or tuple(s) in p:
                    continue
                q = p + (tuple(s),)
                if q not in nxt:
                    nxt.append(q)
        cur = nxt
    return cur


# ---------------------------------------------------------------------------------------------
# initial states

def initial_states(loc, g, seed=0, full=False):
    """list of (label, vectors dict builder)"""
    sites = [tuple(s) for s in g.sites()]
    N = len(sites)
    bv = loc.basis_vectors()
    out = []
    pats = list(itertools.product(range(len(bv)), repeat=N))
    if not full or len(pats) > 16:
        rot = [tuple((i + k) % len(bv) for i in range(N)) for k in range(min(2, len(bv)))]
        rot.append(tuple((i // 2 + seed) % len(bv) for i in range(N)))
        pats = sorted(set(rot))
    for p in pats:
        out.append(('pure:' + ''.join(map(str, p)), ('pure', p)))
    out.append(('purif:I', ('purif', 'I')))
    out.append(('purif:W', ('purif', 'W')))
    return out


def make_state(loc, g, spec):
    sites = [tuple(s) for s in g.sites()]
    kind, p = spec
    if kind == 'pure':
        bv = loc.basis_vectors()
        vecs = {s: bv[p[k]].copy() for k, s in enumerate(sites)}
    elif p == 'I':
        vecs = {s: loc.O['I'].copy() for s in sites}
    else:  # neutral, non-trivial, site dependent purification operator
        nz = {'spinless': 'n', 'spinful': 'nu', 'tJ': 'nu', 'spin12': 'sz'}[loc.fam]
        vecs = {s: loc.O['I'] + (0.5 + 0.25 * k) * loc.O[nz] for k, s in enumerate(sites)}
    return fpeps.product_peps(g, vecs)


class Dense:
    """dense read-out of a finite PEPS with fixed embedding legs (system: loc.space; ancillas: from the initial state)"""

    def __init__(self, loc, psi0, anc_legs=None):
        self.loc = loc
        T = psi0.to_tensor()
        self.N = len(psi0.sites())
        assert T.ndim == 2 * self.N, (T.ndim, self.N)
        self.legs = {2 * i: loc.space for i in range(self.N)}
        own = T.get_legs()
        for i in range(self.N):
            self.legs[2 * i + 1] = own[2 * i + 1] if anc_legs is None else anc_legs[i]
        self.anc = [self.legs[2 * i + 1] for i in range(self.N)]

    def __call__(self, psi):
        T = psi.to_tensor()
        A = T.to_numpy(legs=self.legs)
        N = self.N
        ax = list(range(0, 2 * N, 2)) + list(range(1, 2 * N, 2))
        return A.transpose(ax).reshape(self.loc.d ** N, -1)


# ---------------------------------------------------------------------------------------------
# gate catalogue.  A gate descriptor is a JSON-able dict {'kind', 'par', 'step', 'sites'}.

def _J(loc, spaces, idx):
    """J(name, k): JW embedding of the named local operator at lattice index idx[k]"""
    cache = {}

    def J(name, k):
        key = (name, idx[k])
        if key not in cache:
            cache[key] = JW.jw(loc.O[name], idx[k], spaces, loc.config)
        return cache[key]
    return J


def hamiltonian(loc, kind, par, J):
    """dense Hamiltonian of a gate kind; J(name, k) with k = 0 (first site) or -1 (last site)"""
    f = loc.fam
    if kind == 'hop':       # -t (cp_0 c_1 + cp_1 c_0) for the fermion species par['sp']
        c, cp = par['ops']
        return -par['t'] * (J(cp, 0) @ J(c, -1) + J(cp, -1) @ J(c, 0))
    if kind == 'ising':
        return par['J'] * J('x', 0) @ J('x', -1)
    if kind == 'heis':
        return par['J'] * (0.5 * (J('sp', 0) @ J('sm', -1) + J('sm', 0) @ J('sp', -1)) + J('sz', 0) @ J('sz', -1))
    if kind == 'tJ':
        Jc, tu, td = par['J'], par['tu'], par['td']
        H = 0
        for s, t in (('u', tu), ('d', td)):
            H = H - t * (J('cp' + s, 0) @ J('c' + s, -1) + J('cp' + s, -1) @ J('c' + s, 0))
        Sp = lambda k: J('cpu', k) @ J('cd', k)
        Sm = lambda k: J('cpd', k) @ J('cu', k)
        nu = lambda k: J('cpu', k) @ J('cu', k)
        nd = lambda k: J('cpd', k) @ J('cd', k)
        Sz = lambda k: 0.5 * (nu(k) - nd(k))
        n = lambda k: nu(k) + nd(k)
        H = H + Jc * (0.5 * (Sp(0) @ Sm(-1) + Sm(0) @ Sp(-1)) + Sz(0) @ Sz(-1) - 0.25 * n(0) @ n(-1))
        H = H - par['muu0'] * nu(0) - par['muu1'] * nu(-1) - par['mud0'] * nd(0) - par['mud1'] * nd(-1)
        return H
    if kind == 'exp2':      # generic asymmetric two-site Hamiltonian
        if f == 'spinless':
            H = 0.3 * J('n', 0) - 0.7 * J('n', -1) + par['t'] * (J('cp', 0) @ J('c', -1) + J('cp', -1) @ J('c', 0)) \
                + par['V'] * J('n', 0) @ J('n', -1)
            if loc.sym == 'Z2':
                H = H + par['D'] * (J('cp', 0) @ J('cp', -1) + J('c', -1) @ J('c', 0))
            return H
        if f in ('spinful', 'tJ'):
            H = 0.3 * J('nu', 0) - 0.7 * J('nd', -1) + par['V'] * J('nu', 0) @ J('nd', -1)
            H = H + par['t'] * (J('cpu', 0) @ J('cu', -1) + J('cpu', -1) @ J('cu', 0)) \
                  - 0.4 * par['t'] * (J('cpd', 0) @ J('cd', -1) + J('cpd', -1) @ J('cd', 0))
            return H
        if f == 'spin12':
            return 0.3 * J('sz', 0) - 0.7 * J('sz', -1) + par['t'] * (J('sp', 0) @ J('sm', -1) + J('sm', 0) @ J('sp', -1)) \
                + par['V'] * J('sz', 0) @ J('sz', -1)
    if kind == 'coulomb':   # U (nu - 1/2)(nd - 1/2) - mu_u nu - mu_d nd, up to the constant U/4
        nu, nd = J('nu', 0), J('nd', 0)
        return par['U'] * (nu @ nd - 0.5 * nu - 0.5 * nd) - par['muu'] * nu - par['mud'] * nd
    if kind == 'occ':
        return -par['mu'] * J(par['n'], 0)
    if kind == 'field':
        return -par['h'] * J('x', 0)
    if kind == 'exp1':
        nz = {'spinless': 'n', 'spinful': 'nu', 'tJ': 'nu', 'spin12': 'sz'}[f]
        H = par['a'] * J(nz, 0)
        if f == 'spinful':
            H = H + par['b'] * J('nu', 0) @ J('nd', 0)
        if f == 'spin12' and loc.sym == 'dense':
            H = H + par['b'] * J('x', 0)
        return H
    raise KeyError(kind)


def _local_H_tensor(loc, kind, par):
    """the yastn tensor Hamiltonian passed to gate_nn_exp / gate_local_exp (built with fkron / local algebra)"""
    O, f = loc.O, loc.fam
    fk = lambda a, b, s=(0, 1): yastn.fkron(O[a], O[b], sites=s)
    if kind == 'exp2':
        if f == 'spinless':
            H = 0.3 * fk('n', 'I') - 0.7 * fk('I', 'n') + par['t'] * (fk('cp', 'c') + fk('cp', 'c', (1, 0))) + par['V'] * fk('n', 'n')
            if loc.sym == 'Z2':
                H = H + par['D'] * (fk('cp', 'cp') + fk('c', 'c', (1, 0)))
            return H
        if f in ('spinful', 'tJ'):
            H = 0.3 * fk('nu', 'I') - 0.7 * fk('I', 'nd') + par['V'] * fk('nu', 'nd')
            H = H + par['t'] * (fk('cpu', 'cu') + fk('cpu', 'cu', (1, 0))) - 0.4 * par['t'] * (fk('cpd', 'cd') + fk('cpd', 'cd', (1, 0)))
            return H
        if f == 'spin12':
            return 0.3 * fk('sz', 'I') - 0.7 * fk('I', 'sz') + par['t'] * (fk('sp', 'sm') + fk('sm', 'sp')) + par['V'] * fk('sz', 'sz')
    if kind == 'exp1':
        nz = {'spinless': 'n', 'spinful': 'nu', 'tJ': 'nu', 'spin12': 'sz'}[f]
        H = par['a'] * O[nz]
        if f == 'spinful':
            H = H + par['b'] * (O['nu'] @ O['nd'])
        if f == 'spin12' and loc.sym == 'dense':
            H = H + par['b'] * O['x']
        return H
    raise KeyError(kind)


def build_gate(loc, desc):
    """the yastn Gate of a descriptor"""
    kind, par, step = desc['kind'], desc['par'], _c(desc.get('step'))
    sites = tuple(tuple(s) for s in desc['sites']) if desc.get('sites') is not None else None
    O, G = loc.O, fpeps.gates
    one = sites[0] if sites is not None and len(sites) == 1 else None
    if kind == 'hop':
        c, cp = par['ops']
        return G.gate_nn_hopping(par['t'], step, O['I'], O[c], O[cp], bond=sites)
    if kind == 'ising':
        return G.gate_nn_Ising(par['J'], step, O['I'], O['x'], bond=sites)
    if kind == 'heis':
        return G.gate_nn_Heisenberg(par['J'], step, O['I'], O['sz'], O['sp'], O['sm'], bond=sites)
    if kind == 'tJ':
        return G.gate_nn_tJ(par['J'], par['tu'], par['td'], par['muu0'], par['muu1'], par['mud0'], par['mud1'], step,
                            O['I'], O['cu'], O['cpu'], O['cd'], O['cpd'], bond=sites)
    if kind == 'exp2':
        return G.gate_nn_exp(step, O['I'], _local_H_tensor(loc, kind, par), bond=sites)
    if kind == 'coulomb':
        return G.gate_local_Coulomb(par['muu'], par['mud'], par['U'], step, O['I'], O['nu'], O['nd'], site=one)
    if kind == 'occ':
        return G.gate_local_occupation(par['mu'], step, O['I'], O[par['n']], site=one)
    if kind == 'field':
        return G.gate_local_field(par['h'], step, O['I'], O['x'], site=one)
    if kind == 'exp1':
        return G.gate_local_exp(step, O['I'], _local_H_tensor(loc, kind, par), site=one)
    if kind == 'mpo':
        return fpeps.Gate(mpo_operator(loc, par, len(sites)), sites)
    if kind == 'tensors':   # list-of-tensors form of the same MPO
        from yastn.tn.fpeps._gates_auxiliary import gate_from_mpo
        return fpeps.Gate(tuple(gate_from_mpo(mpo_operator(loc, par, len(sites)))), sites)
    raise KeyError(kind)


def _c(z):
    if isinstance(z, (list, tuple)):
        return complex(z[0], z[1]) if z[1] != 0 else z[0]
    return z


def jstep(z):
    z = complex(z)
    return [z.real, z.imag]


def mpo_terms(loc, par, n):
    """(amplitude, positions, operator names) of the operator used for MPO gates on n sites"""
    f = loc.fam
    a = par.get('a', 1.0)
    if f == 'spinless':
        t = [(0.3, [], []), (a, [0, n - 1], ['cp', 'c']), (0.5, [0, 1], ['n', 'n']), (-1.0, [0, 1], ['c', 'cp'])]
        if n > 2:
            t.append((2.0, [1, n - 1], ['cp', 'c']))
            t.append((0.7, [n - 1, 0, 1], ['cp', 'n', 'c']))
    elif f in ('spinful', 'tJ'):
        t = [(0.3, [], []), (a, [0, n - 1], ['cpu', 'cu']), (0.5, [0, 1], ['nu', 'nd']), (-1.0, [0, 1], ['cd', 'cpd'])]
        if n > 2:
            t.append((2.0, [1, n - 1], ['cpd', 'cd']))
            t.append((0.7, [n - 1, 0, 1], ['cpu', 'nu', 'cu']))
    else:
        t = [(0.3, [], []), (a, [0, n - 1], ['sp', 'sm']), (0.5, [0, 1], ['sz', 'sz']), (-1.0, [0, 1], ['sm', 'sp'])]
        if n > 2:
            t.append((2.0, [1, n - 1], ['sp', 'sm']))
            t.append((0.7, [n - 1, 0, 1], ['sp', 'sz', 'sm']))
    return t


def mpo_operator(loc, par, n):
    terms = [mps.Hterm(a, list(pos), [loc.O[o] for o in names]) for a, pos, names in mpo_terms(loc, par, n)]
    return mps.generate_mpo(loc.O['I'], terms, N=n)


def dense_gate(loc, desc, spaces, idx_of_sites):
    """dense matrix of the gate of `desc` acting on the lattice (idx_of_sites[k] = lattice index of desc['sites'][k])"""
    kind, par = desc['kind'], desc['par']
    J = _J(loc, spaces, list(idx_of_sites))
    if kind in ('mpo', 'tensors'):
        n = len(idx_of_sites)
        M = 0
        for a, pos, names in mpo_terms(loc, par, n):
            T = np.eye(loc.d ** len(spaces))
            for p, o in zip(pos, names):
                T = T @ J(o, p)
            M = M + a * T
        return M
    H = hamiltonian(loc, kind, par, J)
    return scipy.linalg.expm(-_c(desc['step']) * H)


def gate_kinds(loc):
    """(two-site kinds, local kinds) available for the family, with their parameter alphabets (two values each)"""
    f, sym = loc.fam, loc.sym
    nn, lc = [], []
    if f == 'spinless':
        nn += [('hop', {'t': 1.0, 'ops': ['c', 'cp']}), ('exp2', {'t': 0.5, 'V': -1.3, 'D': 0.6})]
        lc += [('occ', {'mu': 0.5, 'n': 'n'}), ('exp1', {'a': -1.3, 'b': 0})]
    elif f == 'spinful':
        nn += [('hop', {'t': 1.0, 'ops': ['cu', 'cpu']}), ('hop', {'t': -1.3, 'ops': ['cd', 'cpd']}), ('exp2', {'t': 0.5, 'V': -1.3})]
        lc += [('coulomb', {'muu': 0.5, 'mud': -1.3, 'U': 0.5}), ('occ', {'mu': 0.5, 'n': 'nd'}), ('exp1', {'a': -1.3, 'b': 0.5})]
    elif f == 'tJ':
        nn += [('tJ', {'J': 0.5, 'tu': 1.0, 'td': -1.3, 'muu0': 0.5, 'muu1': 0, 'mud0': -1.3, 'mud1': 0.5}),
               ('hop', {'t': 1.0, 'ops': ['cu', 'cpu']}), ('exp2', {'t': 0.5, 'V': -1.3})]
        lc += [('occ', {'mu': 0.5, 'n': 'nu'}), ('exp1', {'a': -1.3, 'b': 0})]
    elif f == 'spin12':
        nn += [('heis', {'J': 0.5}), ('exp2', {'t': 0.5, 'V': -1.3})]
        if sym in ('dense', 'Z2'):
            nn.append(('ising', {'J': -1.3}))
        lc += [('exp1', {'a': -1.3, 'b': 0.5})]
        if sym == 'dense':
            lc.append(('field', {'h': 0.5}))
    return nn, lc
