"""
Tensor alphabet: JSON-able tensor descriptors -> (yastn tensor, ground-truth dense array, spaces, signature, n).

descriptor td:
  's'   : list of +-1 (logical signature)
  'm'   : per leg a menu index (int), or 'c' (the conflicting sector dictionary), or a list [[t...], D] pairs
  'n'   : index into legs.CHARGES[sym]
  'drop': None | list of block indices (mod #allowed) that are NOT created (allowed-but-absent blocks)
  'diag': bool
  'var' : ['fresh'] | ['lazy', perm] | ['mat', perm] | ['copy']     lazy state of the SAME logical tensor
  'id'  : optional tag that decorrelates the integer data of otherwise identical descriptors
The integer data depend on (seed, sym, dtype, td without 'var') only, so all lazy variants of a descriptor
represent one and the same logical tensor.
"""
import numpy as np
import yastn

from vmc.engine.runner import h64
from vmc.models import groups as G
from vmc.models import dense as MD
from . import legs as GL


def space_from(sym, m):
    if isinstance(m, int):
        return dict(GL.MENU[sym][m])
    if m == 'c':
        return dict(GL.CONFLICT[sym])
    if isinstance(m, dict):
        return {tuple(k): v for k, v in m.items()}
    return {tuple(t): d for t, d in m}     # list of [t, D]


def space_to_json(sp):
    return [[list(t), d] for t, d in sorted(sp.items())]


def inv_perm(p):
    q = [0] * len(p)
    for i, v in enumerate(p):
        q[v] = i
    return tuple(q)


def rints(rng, shape, cplx, lo=-3, hi=3):
    a = rng.integers(lo, hi + 1, size=shape).astype(np.float64)
    if cplx:
        a = a + 1j * rng.integers(lo, hi + 1, size=shape)
    return a


def describe_data_key(sym, dtype, td):
    return (sym, dtype, tuple(td['s']), repr(td['m']), td.get('n', 0), repr(td.get('drop')), bool(td.get('diag')),
            td.get('id'))   # dtype is the effective one (td override or config default)


class Built:
    __slots__ = ('x', 'A', 'spaces', 's', 'n', 'nblocks', 'nallowed', 'td', '_own')

    @property
    def own(self):
        if getattr(self, '_own', None) is None:
            self._own = MD.native_spaces(self.x)
        return self._own


def build(cfg, sym, td, seed, generic=False):
    mods = G.moduli(sym)
    dtype = td.get('dtype') or cfg.default_dtype
    cplx = dtype.startswith('complex')
    sig = tuple(td['s'])
    rank = len(sig)
    diag = bool(td.get('diag'))
    spaces = [space_from(sym, m) for m in td['m']]
    n = tuple(GL.CHARGES[sym][td.get('n', 0)]) if not isinstance(td.get('n', 0), (list, tuple)) else tuple(td['n'])
    rng = np.random.default_rng(h64((seed,) + describe_data_key(sym, dtype, td)))
    npdt = np.complex128 if cplx else np.float64
    if dtype == 'float32':
        npdt = np.float32
    if dtype == 'complex64':
        npdt = np.complex64
    x = yastn.Tensor(config=cfg, s=sig, n=n, isdiag=diag, dtype=dtype)
    offs = [MD.offsets(sp) for sp in spaces]
    A = np.zeros(tuple(o[1] for o in offs), dtype=npdt)
    if diag:
        keys = [(t, t) for t in sorted(spaces[0])]
    else:
        keys = MD.allowed_keys(mods, spaces, sig, n)
    nallowed = len(keys)
    drop = td.get('drop')
    if drop and keys:
        dd = {d % len(keys) for d in drop}
        keys = [k for i, k in enumerate(keys) if i not in dd]
    for key in keys:
        dims = tuple(spaces[i][t] for i, t in enumerate(key))
        if diag:
            blk = rints(rng, (dims[0],), cplx) if not generic else rng.standard_normal(dims[0])
            x.set_block(ts=key[0], Ds=dims[0], val=blk)
            (l0, h0), (l1, h1) = offs[0][0][key[0]], offs[1][0][key[1]]
            A[l0:h0, l1:h1] = np.diag(blk)
        else:
            if generic:
                blk = rng.standard_normal(dims) + (1j * rng.standard_normal(dims) if cplx else 0)
            else:
                blk = rints(rng, dims, cplx)
            flat = tuple(c for t in key for c in t)
            x.set_block(ts=flat, Ds=dims, val=blk)
            A[tuple(slice(*offs[i][0][t]) for i, t in enumerate(key))] = blk
    var = td.get('var') or ['fresh']
    if var[0] in ('lazy', 'mat') and rank >= 1:
        p = tuple(var[1])
        x = x.transpose(inv_perm(p)).consume_transpose().transpose(p)
        if var[0] == 'mat':
            x = x.consume_transpose()
    elif var[0] == 'copy':
        x = x.copy()
    b = Built()
    b._own = None
    b.x, b.A, b.spaces, b.s, b.n, b.nblocks, b.nallowed, b.td = x, A, spaces, sig, n, len(keys), nallowed, td
    return b


def perms_for(rank, level):
    """lazy permutations: level 0 -> reversal and one cyclic shift; level 1 -> all non-identity for rank<=3,
    generators + reversal for rank 4"""
    import itertools
    ident = tuple(range(rank))
    if rank <= 1:
        return []
    if level == 0:
        out = [tuple(reversed(ident))]
        cyc = ident[1:] + ident[:1]
        if cyc not in out:
            out.append(cyc)
        return out
    if rank <= 3:
        return [p for p in itertools.permutations(ident) if p != ident]
    out = [tuple(reversed(ident)), ident[1:] + ident[:1], (1, 0) + ident[2:], ident[-1:] + ident[:-1]]
    return list(dict.fromkeys(out))


def variants(rank, level, with_mat=True):
    out = [['fresh']]
    for p in perms_for(rank, level):
        out.append(['lazy', list(p)])
    if with_mat:
        ps = perms_for(rank, 0)
        if ps:
            out.append(['mat', list(ps[-1])])
    return out


def leg_for(cfg, s, space, hf=None):
    return GL.make_leg(cfg, s, space)
