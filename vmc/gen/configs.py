"""Configuration alphabet."""
import itertools
import yastn
from yastn.sym import sym_Z2xU1

SYMS = ['dense', 'Z2', 'Z3', 'U1', 'Z2xU1', 'U1xU1', 'U1xU1xZ2']
POLICIES = ['fuse_to_matrix', 'fuse_contracted', 'no_fusion']
NSYM = {'dense': 0, 'Z2': 1, 'Z3': 1, 'U1': 1, 'Z2xU1': 2, 'U1xU1': 2, 'U1xU1xZ2': 3}


def sym_obj(sym):
    return sym_Z2xU1 if sym == 'Z2xU1' else sym


def make(sym='U1', fermionic=False, dtype='float64', policy='fuse_to_matrix', default_fusion='hard',
         force_fusion=None):
    if isinstance(fermionic, list):
        fermionic = tuple(fermionic)
    return yastn.make_config(sym=sym_obj(sym), fermionic=fermionic, default_dtype=dtype,
                             tensordot_policy=policy, default_fusion=default_fusion, force_fusion=force_fusion)


def fermionic_values(sym):
    n = NSYM[sym]
    vals = [False, True]
    if n >= 2:
        for f in itertools.product([False, True], repeat=n):
            if any(f) and not all(f):
                vals.append(f)
    return vals


def all_18():
    out = []
    for p in POLICIES:
        for df in ('hard', 'meta'):
            for ff in (None, 'hard', 'meta'):
                out.append({'policy': p, 'default_fusion': df, 'force_fusion': ff})
    return out
