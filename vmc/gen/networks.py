"""
Catalogue of small tensor networks for ncon/einsum (shared by C01, C05, C14).
A network: {'ranks': [r0, r1, ...], 'pairs': [[slot_p, slot_q], ...]} with slots numbered consecutively over
tensors; every slot not in a pair is open.  Enumeration is complete for the stated bounds.
"""
import itertools


def slots_of(ranks):
    out = []
    for t, r in enumerate(ranks):
        out += [(t, l) for l in range(r)]
    return out


def _matchings(slots, k):
    """all sets of k disjoint pairs of slot indices (pairs ordered p<q, listed in increasing p)"""
    n = len(slots)

    def rec(start, used, left):
        if left == 0:
            yield []
            return
        for p in range(start, n):
            if p in used:
                continue
            for q in range(p + 1, n):
                if q in used:
                    continue
                for rest in rec(p + 1, used | {p, q}, left - 1):
                    yield [[p, q]] + rest
    yield from rec(0, frozenset(), k)


def _connected(ranks, slots, pairs):
    n = len(ranks)
    adj = {t: set() for t in range(n)}
    for p, q in pairs:
        a, b = slots[p][0], slots[q][0]
        adj[a].add(b)
        adj[b].add(a)
    seen, stack = {0}, [0]
    while stack:
        for v in adj[stack.pop()]:
            if v not in seen:
                seen.add(v)
                stack.append(v)
    return len(seen) == n


def networks(max_tensors=3, max_rank=3, max_legs=7, max_open=4, max_selfloops=1, include_disconnected=True):
    for nt in range(1, max_tensors + 1):
        for ranks in itertools.product(range(1, max_rank + 1), repeat=nt):
            if sum(ranks) > max_legs:
                continue
            if nt > 1 and list(ranks[1:]) != sorted(ranks[1:]) and False:
                continue
            slots = slots_of(ranks)
            for k in range(0, len(slots) // 2 + 1):
                if len(slots) - 2 * k > max_open:
                    continue
                for pairs in _matchings(slots, k):
                    loops = sum(1 for p, q in pairs if slots[p][0] == slots[q][0])
                    if loops > max_selfloops:
                        continue
                    conn = _connected(ranks, slots, pairs)
                    if not conn and not (include_disconnected and nt == 2 and k == 0 and sum(ranks) <= 4):
                        continue
                    yield {'ranks': list(ranks), 'pairs': pairs}


def inds_of(net, out_perm=None):
    """ncon index lists: contracted pairs labelled 1..k in listed order; open slots labelled -out position."""
    slots = slots_of(net['ranks'])
    lab = {}
    for i, (p, q) in enumerate(net['pairs'], start=1):
        lab[p] = lab[q] = i
    opens = [i for i in range(len(slots)) if i not in lab]
    if out_perm is None:
        out_perm = list(range(len(opens)))
    for pos, oi in enumerate(out_perm):
        lab[opens[oi]] = -pos
    inds, c = [], 0
    for r in net['ranks']:
        inds.append([lab[c + l] for l in range(r)])
        c += r
    return inds, opens


def out_perms(nopen, level):
    allp = list(itertools.permutations(range(nopen)))
    if nopen <= 3 or level >= 1:
        return allp
    return [allp[0], allp[-1], tuple(list(range(1, nopen)) + [0])]
