"""
Leg alphabets.  Per symmetry one *universe* {charge: dim} and a menu of charge subsets, so that any two
menu entries are consistent (same dim for a common charge) and pairs of entries are equal / overlapping /
nested / disjoint.  CONFLICT is a sector dictionary that disagrees with the universe on a dimension
(contract-violation cases).  Charges are tuples of length NSYM.
"""
UNIVERSE = {
    'dense': {(): 2},
    'Z2': {(0,): 1, (1,): 2},
    'Z3': {(0,): 1, (1,): 2, (2,): 1},
    'U1': {(-1,): 1, (0,): 2, (1,): 3, (2,): 1},
    'Z2xU1': {(0, 0): 1, (1, 1): 2, (1, 0): 1, (0, 2): 2, (0, -1): 1},
    'U1xU1': {(0, 0): 1, (1, 0): 2, (0, 1): 1, (1, 1): 2, (-1, 0): 1},
    'U1xU1xZ2': {(0, 0, 0): 1, (1, 0, 1): 2, (0, 1, 1): 1, (1, 1, 0): 2},
}

SUBSETS = {
    'dense': [[()]],
    'Z2': [[(0,), (1,)], [(1,)], [(0,)]],
    'Z3': [[(0,), (1,), (2,)], [(1,), (2,)], [(0,)], [(0,), (1,)]],
    'U1': [[(0,), (1,)], [(-1,), (0,), (1,)], [(1,)], [(0,), (2,)]],
    'Z2xU1': [[(0, 0), (1, 1)], [(0, -1), (1, 0), (1, 1)], [(1, 1)], [(0, 0), (0, 2)]],
    'U1xU1': [[(0, 0), (1, 0), (0, 1)], [(-1, 0), (0, 0), (1, 1)], [(1, 0)], [(0, 0), (1, 1)]],
    'U1xU1xZ2': [[(0, 0, 0), (1, 0, 1), (0, 1, 1)], [(0, 0, 0), (1, 1, 0), (1, 0, 1)], [(1, 0, 1)],
                 [(0, 0, 0), (1, 1, 0)]],
}

CONFLICT = {
    'dense': {(): 3},
    'Z2': {(0,): 2, (1,): 2},
    'Z3': {(0,): 1, (1,): 1},
    'U1': {(0,): 1, (1,): 3},
    'Z2xU1': {(0, 0): 2, (1, 1): 2},
    'U1xU1': {(0, 0): 1, (1, 0): 1},
    'U1xU1xZ2': {(0, 0, 0): 2, (1, 0, 1): 2},
}

# tensor charges to try: index 0 is zero, 1 = n1, 2 = n2
CHARGES = {
    'dense': [()],
    'Z2': [(0,), (1,)],
    'Z3': [(0,), (1,), (2,)],
    'U1': [(0,), (1,), (-1,)],
    'Z2xU1': [(0, 0), (1, 1), (1, 0)],
    'U1xU1': [(0, 0), (1, 0), (1, -1)],
    'U1xU1xZ2': [(0, 0, 0), (1, 0, 1), (1, 1, 0)],
}


def _mk():
    return {sym: [dict((t, UNIVERSE[sym][t]) for t in sub) for sub in subs] for sym, subs in SUBSETS.items()}


MENU = _mk()
MENU['dense'] = [{(): 2}, {(): 1}, {(): 3}]   # dense legs of different size are never consistent


def menu(sym, size=None):
    m = MENU[sym]
    return m if size is None else m[:size]


def msize(sym, cap):
    return min(cap, len(MENU[sym]))


def charges(sym, k=None):
    c = CHARGES[sym]
    return c if k is None else c[:k]


def relation(ta, tb):
    ka, kb = set(ta), set(tb)
    if ka == kb:
        return 'equal'
    if not (ka & kb):
        return 'disjoint'
    if ka <= kb or kb <= ka:
        return 'nested'
    return 'overlapping'


def consistent(ta, tb):
    return all(ta[k] == tb[k] for k in ta.keys() & tb.keys())


def make_leg(cfg, s, tD):
    import yastn
    t = sorted(tD)
    sym = cfg if hasattr(cfg, 'SYM_ID') else cfg.sym
    if sym.NSYM == 0:
        return yastn.Leg(cfg, s=s, D=(tD[()],) if tD else ())
    return yastn.Leg(cfg, s=s, t=t, D=[tD[x] for x in t])
