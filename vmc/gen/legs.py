"""
Leg menus: per symmetry a short list of sector dictionaries {charge: dim} chosen so that pairs of
entries are equal / overlapping / nested / disjoint.  Charges are tuples (length NSYM).
"""
MENU = {
    'dense': [{(): 2}, {(): 1}, {(): 3}],
    'Z2': [{(0,): 1, (1,): 2}, {(1,): 2}, {(0,): 2}, {(0,): 2, (1,): 1}],
    'Z3': [{(0,): 1, (1,): 2, (2,): 1}, {(1,): 1, (2,): 2}, {(0,): 2}, {(0,): 1, (1,): 2}],
    'U1': [{(0,): 1, (1,): 2}, {(-1,): 1, (0,): 2, (1,): 1}, {(1,): 2}, {(0,): 1, (2,): 1}],
    'Z2xU1': [{(0, 0): 1, (1, 1): 2}, {(0, -1): 1, (1, 0): 2, (1, 1): 1}, {(1, 1): 2}, {(0, 0): 1, (0, 2): 1}],
    'U1xU1': [{(0, 0): 1, (1, 0): 2, (0, 1): 1}, {(-1, 0): 1, (0, 0): 2, (1, 1): 1}, {(1, 0): 2},
              {(0, 0): 1, (1, 1): 2}],
    'U1xU1xZ2': [{(0, 0, 0): 1, (1, 0, 1): 2, (0, 1, 1): 1}, {(0, 0, 0): 2, (1, 1, 0): 1, (1, 0, 1): 1},
                 {(1, 0, 1): 2}, {(0, 0, 0): 1, (1, 1, 0): 2}],
}

# non-zero tensor charges to try (first = n1, second = n2)
CHARGES = {
    'dense': [()],
    'Z2': [(0,), (1,)],
    'Z3': [(0,), (1,), (2,)],
    'U1': [(0,), (1,), (-1,)],
    'Z2xU1': [(0, 0), (1, 1), (1, 0)],
    'U1xU1': [(0, 0), (1, 0), (1, -1)],
    'U1xU1xZ2': [(0, 0, 0), (1, 0, 1), (1, 1, 0)],
}


def menu(sym, size=None):
    m = MENU[sym]
    return m if size is None else m[:size]


def charges(sym, k=None):
    c = CHARGES[sym]
    return c if k is None else c[:k]


def make_leg(cfg, s, tD):
    import yastn
    t = sorted(tD)
    sym = cfg if hasattr(cfg, 'SYM_ID') else cfg.sym
    if sym.NSYM == 0:
        return yastn.Leg(cfg, s=s, D=(tD[()],))
    return yastn.Leg(cfg, s=s, t=t, D=[tD[x] for x in t])
