"""
Program alphabet for explicit-state exploration of operation sequences on real yastn tensors.

An *action* is a JSON-able dict {'op': ..., args}.  enabled(x, level) lists every action of the alphabet that
is applicable to the state tensor x (decided from public properties: rank, legs, diag, fusion).  apply(x, action)
executes it on the real implementation and returns a list of (label, successor tensor) plus the charge the
algebra dictates for each successor (or None where no tensor is produced).
"""
import itertools

import numpy as np
import yastn

from vmc.models import groups as G


def ordered_partitions(r):
    """all `axes` arguments of fuse_legs for rank r: ordered set partitions with ordered members"""
    out = []
    for perm in itertools.permutations(range(r)):
        for cuts in itertools.product((0, 1), repeat=r - 1):
            groups, cur = [], [perm[0]]
            for i, c in enumerate(cuts, start=1):
                if c:
                    groups.append(cur)
                    cur = [perm[i]]
                else:
                    cur.append(perm[i])
            groups.append(cur)
            out.append([g[0] if len(g) == 1 else list(g) for g in groups])
    return out


def fuse_args(r, level):
    if r <= 1:
        return []
    if r <= 3:
        allp = [a for a in ordered_partitions(r) if any(isinstance(g, list) for g in a)]
        if level == 0 and r == 3:
            keep = [[[0, 1], 2], [0, [1, 2]], [[2, 0], 1], [[0, 1, 2]], [1, [2, 0]], [[1, 0], 2], [[2, 1, 0]]]
            return keep
        return allp
    out = []
    for i in range(r - 1):
        a = list(range(r))
        a[i:i + 2] = [[i, i + 1]]
        out.append(a)
    out.append([[0, 1], [2, 3]] + list(range(4, r)))
    out.append([[r - 1, 0]] + list(range(1, r - 1)))
    if level >= 1:
        out.append([[0, 1, 2]] + list(range(3, r)))
        out.append([list(range(r))])
    return out


def bipartitions(r, level):
    """(L, R) axes for factorisations"""
    if r < 2:
        return []
    out = []
    if r == 2:
        out = [([0], [1]), ([1], [0])]
    elif r == 3:
        out = [([0], [1, 2]), ([0, 1], [2]), ([2, 0], [1]), ([1], [2, 0])]
    else:
        out = [([0, 1], list(range(2, r))), ([0], list(range(1, r))), (list(range(r - 1, 0, -1)), [0])]
    return out if level >= 1 else out[:2]


def _removable(leg):
    return len(leg.t) <= 1 and all(d == 1 for d in leg.D) and not leg.is_fused()


def _flat_legs(leg):
    if type(leg).__name__ == 'LegMeta':
        return [x for l in leg.legs for x in _flat_legs(l)]
    return [leg]


def _removable_meta(leg):
    """meta-fused leg all of whose constituents are dimension-one single-charge legs"""
    return type(leg).__name__ == 'LegMeta' and all(_removable(l) for l in _flat_legs(leg))


def enabled(x, level=0):
    """list of actions applicable to x"""
    r = x.ndim
    acts = []
    A = acts.append
    diag = x.isdiag
    legs = x.get_legs() if r else ()
    fused = [l.is_fused() for l in legs]
    A({'op': 'conj'})
    A({'op': 'conj_blocks'})
    A({'op': 'flip_signature'})
    A({'op': 'mul', 'c': 2})
    A({'op': 'neg'})
    A({'op': 'abs'})
    A({'op': 'real'})
    A({'op': 'copy'})
    A({'op': 'remove_zero_blocks'})
    A({'op': 'consume_transpose'})
    A({'op': 'drop_leg_history'})
    A({'op': 'add_self'})
    A({'op': 'sub_self'})
    A({'op': 'vdot_self'})
    A({'op': 'norm'})
    if r >= 1:
        A({'op': 'transpose', 'axes': list(range(r))[::-1]})
        if r >= 3:
            A({'op': 'transpose', 'axes': list(range(1, r)) + [0]})
        if r >= 2:
            A({'op': 'moveaxis', 'src': 0, 'dst': -1})
        A({'op': 'dot_conj', 'k': 1})
        if r >= 2:
            A({'op': 'dot_conj', 'k': r})
            A({'op': 'dot_conj_last', 'k': 1})
        A({'op': 'dot_fresh', 'axis': 0})
        if r >= 2:
            A({'op': 'dot_fresh', 'axis': r - 1})
        A({'op': 'ncon_self'})
    if diag:
        A({'op': 'diag'})
        A({'op': 'trace', 'axes': [0, 1]})
        A({'op': 'sqrt_abs'})
        return acts
    for ax in range(r):
        if not fused[ax] or True:
            A({'op': 'switch_signature', 'axes': [ax]})
        if not fused[ax]:
            A({'op': 'flip_charges', 'axes': [ax]})
        if (_removable(legs[ax]) and type(legs[ax]).__name__ == 'Leg') or _removable_meta(legs[ax]):
            A({'op': 'remove_leg', 'axis': ax})
    if r >= 2 and not any(fused):
        A({'op': 'flip_charges', 'axes': None})
    for axis in ([0, -1] if r else [0]):
        for s in (1, -1):
            for t in (None, 1):
                A({'op': 'add_leg', 'axis': axis, 's': s, 't': t})
    # traces over matching legs
    for i in range(r):
        for j in range(r):
            if i != j and legs[i].s == -legs[j].s and _legs_match(legs[i], legs[j]):
                A({'op': 'trace', 'axes': [i, j]})
    if r == 2 and legs[0].s == -legs[1].s and not any(fused) and not any(x.n):
        A({'op': 'diag'})
    # fusion
    for axes in fuse_args(r, level):
        for mode in ('hard', 'meta'):
            A({'op': 'fuse_legs', 'axes': axes, 'mode': mode})
        if level >= 1:
            A({'op': 'fuse_legs', 'axes': axes, 'mode': None})
    for ax in range(r):
        if fused[ax] and legs[ax].history()[0] in 'pm':
            A({'op': 'unfuse_legs', 'axes': ax})
    if sum(fused) >= 2:
        A({'op': 'unfuse_legs', 'axes': [i for i in range(r) if fused[i] and legs[i].history()[0] in 'pm']})
    if any(type(l).__name__ == 'LegMeta' for l in legs):
        A({'op': 'fuse_meta_to_hard'})
    # factorisations
    for L, R in bipartitions(r, level):
        for sU in (1, -1):
            for nU in (True, False):
                A({'op': 'svd', 'axes': [L, R], 'sU': sU, 'nU': nU})
            A({'op': 'qr', 'axes': [L, R], 'sQ': sU})
        A({'op': 'svd_trunc', 'axes': [L, R], 'D_total': 1})
        A({'op': 'svd_S', 'axes': [L, R]})
    if r >= 2:
        A({'op': 'eigh_gram', 'k': 1, 'sU': 1})
        A({'op': 'eigh_gram', 'k': 1, 'sU': -1})
    # blocking
    if r >= 1:
        A({'op': 'block', 'layout': '2x1'})
        if r >= 2:
            A({'op': 'block', 'layout': '2x2'})
            A({'op': 'block', 'layout': 'common0'})
    return acts


def _legs_match(a, b):
    if type(a) is not type(b):
        return False
    try:
        return a.are_consistent(b)
    except Exception:
        return False


def _fresh_partner(x, axis):
    """ones-tensor with legs (conj of x's leg `axis`, a fresh two-sector leg), used for binary actions"""
    cfg = x.config
    leg = x.get_legs(axis)
    sym = cfg.sym
    z = sym.zero()
    from vmc.gen import legs as GL
    sid = sym.SYM_ID
    extra = GL.make_leg(cfg, 1, GL.MENU[sid][0])
    return yastn.ones(config=cfg, legs=[leg.conj(), extra], n=z, dtype=x.yastn_dtype)


def apply(x, a):
    """
    returns list of (label, result, expected_charge).  result may be a Tensor or a python/NumPy number.
    expected_charge None = no expectation (numbers).
    """
    cfg = x.config
    mods = G.moduli(cfg.sym)
    n = tuple(x.n)
    neg = G.neg(mods, n)
    z = G.zero(mods)
    op = a['op']
    if op == 'conj':
        return [('r', x.conj(), neg)]
    if op == 'conj_blocks':
        return [('r', x.conj_blocks(), n)]
    if op == 'flip_signature':
        return [('r', x.flip_signature(), neg)]
    if op == 'mul':
        return [('r', x * a['c'], n)]
    if op == 'neg':
        return [('r', -x, n)]
    if op == 'abs':
        return [('r', abs(x), n)]
    if op == 'sqrt_abs':
        return [('r', abs(x).sqrt(), n)]
    if op == 'real':
        return [('r', x.real(), n)]
    if op == 'copy':
        return [('r', x.copy(), n)]
    if op == 'remove_zero_blocks':
        return [('r', x.remove_zero_blocks(), n)]
    if op == 'consume_transpose':
        return [('r', x.consume_transpose(), n)]
    if op == 'drop_leg_history':
        return [('r', x.drop_leg_history(), n)]
    if op == 'add_self':
        return [('r', x + x, n)]
    if op == 'sub_self':
        y = x.copy()
        return [('r', x - 2 * y, n)]
    if op == 'vdot_self':
        return [('num', yastn.vdot(x, x), None)]
    if op == 'norm':
        return [('num', x.norm(), None)]
    if op == 'transpose':
        return [('r', x.transpose(tuple(a['axes'])), n)]
    if op == 'moveaxis':
        return [('r', x.moveaxis(a['src'], a['dst']), n)]
    if op == 'dot_conj':
        k = a['k']
        ax = tuple(range(k))
        return [('r', yastn.tensordot(x, x, axes=(ax, ax), conj=(0, 1)), z)]
    if op == 'dot_conj_last':
        ax = (x.ndim - 1,)
        return [('r', yastn.tensordot(x, x, axes=(ax, ax), conj=(1, 0)), z)]
    if op == 'dot_fresh':
        p = _fresh_partner(x, a['axis'])
        return [('r', yastn.tensordot(x, p, axes=(a['axis'], 0)), n)]
    if op == 'ncon_self':
        r = x.ndim
        inds_a = [1] + [-(i) for i in range(r - 1)]
        inds_b = [1] + [-(i + r - 1) for i in range(r - 1)]
        return [('r', yastn.ncon([x, x], [inds_a, inds_b], conjs=(0, 1)), z)]
    if op == 'diag':
        return [('r', x.diag(), n)]
    if op == 'trace':
        return [('r', x.trace(axes=tuple(a['axes'])), n)]
    if op == 'switch_signature':
        return [('r', x.switch_signature(axes=a['axes']), n)]
    if op == 'flip_charges':
        return [('r', x.flip_charges(axes=a['axes']) if a['axes'] is not None else x.flip_charges(), n)]
    if op == 'remove_leg':
        leg = x.get_legs(a['axis'])
        if type(leg).__name__ == 'LegMeta':
            fl = _flat_legs(leg)
            return [('r', x.remove_leg(axis=a['axis']), G.add(mods, [n] + [(l.t[0] if l.t else z) for l in fl], (1,) + tuple(-l.s for l in fl)))]
        t = leg.t[0] if leg.t else z
        return [('r', x.remove_leg(axis=a['axis']), G.add(mods, [n, t], (1, -leg.s)))]
    if op == 'add_leg':
        nsym = len(mods)
        if a['t'] is None:
            return [('r', x.add_leg(axis=a['axis'], s=a['s']), z)]
        from vmc.gen import legs as GL
        ch = GL.CHARGES[cfg.sym.SYM_ID]
        t = tuple(ch[min(a['t'], len(ch) - 1)])
        targ = t if nsym != 1 else t[0]
        return [('r', x.add_leg(axis=a['axis'], s=a['s'], t=targ), G.add(mods, [n, t], (1, a['s'])))]
    if op == 'fuse_legs':
        axes = tuple(tuple(g) if isinstance(g, list) else g for g in a['axes'])
        if a['mode'] is None:
            return [('r', x.fuse_legs(axes=axes), n)]
        return [('r', x.fuse_legs(axes=axes, mode=a['mode']), n)]
    if op == 'unfuse_legs':
        axes = a['axes'] if isinstance(a['axes'], int) else tuple(a['axes'])
        return [('r', x.unfuse_legs(axes=axes), n)]
    if op == 'fuse_meta_to_hard':
        return [('r', x.fuse_meta_to_hard(), n)]
    if op == 'svd':
        L, R = a['axes']
        U, S, V = yastn.svd(x, axes=(tuple(L), tuple(R)), sU=a['sU'], nU=a['nU'])
        return [('U', U, n if a['nU'] else z), ('S', S, z), ('V', V, z if a['nU'] else n)]
    if op == 'svd_S':
        L, R = a['axes']
        S = yastn.svd(x, axes=(tuple(L), tuple(R)), compute_uv=False)
        return [('S', S, z)]
    if op == 'svd_trunc':
        L, R = a['axes']
        U, S, V = yastn.svd_with_truncation(x, axes=(tuple(L), tuple(R)), D_total=a['D_total'])
        return [('U', U, n), ('S', S, z), ('V', V, z)]
    if op == 'qr':
        L, R = a['axes']
        Q, Rr = yastn.qr(x, axes=(tuple(L), tuple(R)), sQ=a['sQ'])
        return [('Q', Q, n), ('R', Rr, z)]
    if op == 'eigh_gram':
        k = a['k']
        ax = tuple(range(k, x.ndim))
        g = yastn.tensordot(x, x, axes=(ax, ax), conj=(0, 1))   # hermitian, zero charge
        rk = g.ndim // 2
        S, U = yastn.eigh(g, axes=(tuple(range(rk)), tuple(range(rk, 2 * rk))), sU=a['sU'])
        return [('S', S, z), ('U', U, z)]
    if op == 'block':
        lay = a['layout']
        y = 2 * x
        if lay == '2x1':
            pos = {(0,) + (0,) * (x.ndim - 1): x, (1,) + (0,) * (x.ndim - 1): y}
            return [('r', yastn.block(pos), n)]
        if lay == '2x2':
            pad = (0,) * (x.ndim - 2)
            pos = {(0, 0) + pad: x, (1, 1) + pad: y, (0, 1) + pad: -x}
            return [('r', yastn.block(pos), n)]
        if lay == 'common0':
            pad = (0,) * (x.ndim - 2)
            pos = {(0,) + pad: x, (1,) + pad: y}
            return [('r', yastn.block(pos, common_legs=(0,)), n)]
    raise KeyError(op)


def canon(x):
    """canonical byte string of a tensor state (all fields of the object)"""
    if not isinstance(x, yastn.Tensor):
        return repr(x).encode()
    c = x.config
    head = repr((c.sym.SYM_ID, c.fermionic, c.default_dtype, c.default_fusion, c.force_fusion, c.tensordot_policy,
                 x.struct, x.slices, tuple(x.trans), x.mfs, x.hfs, str(x._data.dtype)))
    return head.encode() + x._data.tobytes()


TENSOR_FIELDS = {'config', '_data', 'struct', 'slices', '_trans', 'mfs', 'hfs'}


def fields_selftest(x):
    """the canonical form covers every attribute of the object (a new attribute must fail loudly)"""
    extra = set(vars(x)) - TENSOR_FIELDS
    return None if not extra else f"Tensor has attributes not covered by the canonical state hash: {sorted(extra)}"
