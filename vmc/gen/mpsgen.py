"""
MPS/MPO alphabet: local spaces (operator families x symmetries), leaves (integer-data MPS/MPO of every admissible
charge, product states, generated MPOs) and dense conversion used by C06..C10, C15, C17.
"""
import itertools

import numpy as np
import yastn
import yastn.tn.mps as mps

from vmc.engine.runner import h64

FAMILIES = {
    'spin12': ['dense', 'Z2', 'U1'],
    'spin1': ['dense', 'Z3', 'U1'],
    'spinless': ['Z2', 'U1'],
    'spinful': ['Z2', 'U1', 'U1xU1', 'U1xU1xZ2'],
    'tJ': ['Z2', 'U1', 'U1xU1xZ2'],
    'qdit2': ['dense'],
    'qdit3': ['dense'],
}


class Local:
    """local Hilbert space: operators class instance, config, leg, named operators"""

    def __init__(self, fam, sym, **cfgkw):
        self.fam, self.sym = fam, sym
        if fam == 'spin12':
            ops = yastn.operators.Spin12(sym=sym, **cfgkw)
            names = ['I', 'x', 'y', 'z', 'sp', 'sm'] if sym == 'dense' else (['I', 'x', 'z', 'sp', 'sm'] if sym == 'Z2' else ['I', 'z', 'sp', 'sm'])
            self.O = {n: getattr(ops, n)() for n in names}
        elif fam == 'spin1':
            ops = yastn.operators.Spin1(sym=sym, **cfgkw)
            names = ['I', 'sx', 'sy', 'sz', 'sp', 'sm'] if sym == 'dense' else ['I', 'sz', 'sp', 'sm']
            self.O = {n: getattr(ops, n)() for n in names}
        elif fam == 'spinless':
            ops = yastn.operators.SpinlessFermions(sym=sym, **cfgkw)
            self.O = {'I': ops.I(), 'c': ops.c(), 'cp': ops.cp(), 'n': ops.n()}
        elif fam == 'spinful':
            ops = yastn.operators.SpinfulFermions(sym=sym, **cfgkw)
            self.O = {'I': ops.I(), 'cu': ops.c('u'), 'cd': ops.c('d'), 'cpu': ops.cp('u'), 'cpd': ops.cp('d'), 'nu': ops.n('u'), 'nd': ops.n('d')}
        elif fam == 'tJ':
            ops = yastn.operators.SpinfulFermions_tJ(sym=sym, **cfgkw)
            self.O = {'I': ops.I(), 'cu': ops.c('u'), 'cd': ops.c('d'), 'cpu': ops.cp('u'), 'cpd': ops.cp('d'), 'nu': ops.n('u'), 'h': ops.h()}
        elif fam.startswith('qdit'):
            d = int(fam[4:])
            ops = yastn.operators.Qdit(d=d, **cfgkw)
            self.O = {'I': ops.I()}
        else:
            raise KeyError(fam)
        self.ops = ops
        self.config = ops.config
        self.space = ops.space()
        self.d = int(sum(self.space.D))

    def charges_N(self, N):
        """admissible total charges of an N-site state (sorted tuples)"""
        sym = self.config.sym
        out = {sym.zero()}
        for _ in range(N):
            out = {sym.add_charges(a, t) for a in out for t in self.space.t}
        return sorted(out)

    def I_mpo(self, N):
        return mps.product_mpo(self.O['I'], N)


def spaces_of(loc, N):
    return [loc.space] * N


def dense_vec(psi, loc):
    """dense vector of an MPS over the full product basis (a conjugated MPS lives on the dual legs)"""
    N = psi.N
    T = psi.to_tensor()
    sp = loc.space if psi.A[0].get_legs(1).s == loc.space.s else loc.space.conj()
    A = T.to_numpy(legs={i: sp for i in range(N)})
    return A.reshape(-1)


def dense_mat(op, loc):
    N = op.N
    T = op.to_tensor()
    flipped = op.A[0].get_legs(1).s != loc.space.s
    ket, bra = (loc.space, loc.space.conj()) if not flipped else (loc.space.conj(), loc.space)
    legs = {}
    for i in range(N):
        legs[2 * i] = ket
        legs[2 * i + 1] = bra
    A = T.to_numpy(legs=legs)
    d = loc.d ** N
    return A.transpose(list(range(0, 2 * N, 2)) + list(range(1, 2 * N, 2))).reshape(d, d)


def dense_of(x, loc):
    return dense_vec(x, loc) if x.nr_phys == 1 else dense_mat(x, loc)


def integerize(psi, seed_key, cplx=False, lo=-2, hi=2):
    """replace the data of every site tensor by small integers (keeps the block structure)"""
    rng = np.random.default_rng(h64(seed_key))
    for n in range(psi.N):
        A = psi.A[n]
        data = rng.integers(lo, hi + 1, size=A._data.shape).astype(np.float64)
        if cplx:
            data = data + 1j * rng.integers(lo, hi + 1, size=A._data.shape)
        psi.A[n] = A._replace(data=data)
    psi.factor = 1
    return psi


def random_state(loc, N, n, D, seed_key, integer=True, cplx=False):
    """MPS of total charge n with bond cap D; None if it cannot be built"""
    loc.config.backend.random_seed(seed=h64(seed_key) % (2 ** 31))
    I = loc.I_mpo(N)
    try:
        psi = mps.random_mps(I, n=n if loc.config.sym.NSYM else None, D_total=D, dtype='complex128' if cplx else 'float64')
    except yastn.YastnError:
        return None
    if integer:
        integerize(psi, ('int',) + tuple(seed_key), cplx)
    if any(psi.A[k].size == 0 for k in range(N)):
        return None
    return psi


def random_operator(loc, N, D, seed_key, integer=True):
    loc.config.backend.random_seed(seed=h64(seed_key) % (2 ** 31))
    I = loc.I_mpo(N)
    O = mps.random_mpo(I, D_total=D)
    if integer:
        integerize(O, ('intO',) + tuple(seed_key))
    return O


def product_states(loc, N):
    """product MPS for a few occupation patterns (list of (name, psi))"""
    out = []
    ops = loc.ops
    if loc.fam == 'spinless':
        vs = [ops.vec_n(0), ops.vec_n(1)]
    elif loc.fam == 'spin12':
        vs = [ops.vec_z(1), ops.vec_z(-1)]
    elif loc.fam == 'spin1':
        vs = [ops.vec_z(1), ops.vec_z(0), ops.vec_z(-1)] if hasattr(ops, 'vec_z') else []
    elif loc.fam in ('spinful', 'tJ'):
        vs = [ops.vec_n((0, 0)), ops.vec_n((1, 0)), ops.vec_n((0, 1))]
    else:
        vs = []
    if not vs:
        return out
    pats = [tuple(i % len(vs) for i in range(N)), tuple((i + 1) % len(vs) for i in range(N)), (0,) * N]
    for p in dict.fromkeys(pats):
        try:
            out.append((f'prod{p}', mps.product_mps([vs[i] for i in p])))
        except yastn.YastnError:
            pass
    return out


def same_outer(a, b):
    """identical outer virtual legs (needed for sums)"""
    try:
        return a.virtual_leg('first') == b.virtual_leg('first') and a.virtual_leg('last') == b.virtual_leg('last')
    except Exception:
        return False


def dense_local(vec, loc):
    """dense local vector over the local basis"""
    return vec.to_numpy(legs={0: loc.space}).reshape(-1)
