"""
C05 - Fermionic signs are consistent and order-independent.
(a) swap_gate on every pool tensor x every axes argument (pairs of leg groups incl. overlapping/identical groups, two
    pairs) and the charge= form: shadow(swap_gate(a)) == sign (.) shadow(a) bitwise; involution; identity when bosonic.
(b) ncon/einsum with swap= : complete network catalogue x swap sets x EVERY contraction order; reference = np.einsum
    with one sign operand (-1)^{p(e1) p(e2)} per swap pair (order free by construction).
(c) fkron: operator tuples x all site permutations x application orders vs Jordan-Wigner reference (self-checked CAR).
"""
import itertools

import numpy as np
import yastn

from vmc.gen import configs as GC, legs as GL, tensors as GT, networks as NW
from vmc.models import dense as MD, groups as G, jw as JW
from . import _tcommon as TC
from . import _netcommon as NC

PROPERTY_ID = 'C05'
LEVEL = 'exploration'
RULE = ("product enumeration: (a) (symmetry, fermionic flags, tensor descriptor, lazy/fused variant, axes groups | charges); "
        "(b) (network, swap set, contraction order, parity pattern of tensors); (c) (operator family, symmetry, operator tuple, "
        "site permutation, application order). one case = one call compared with the sign reference; non-trivial = at least "
        "one block is negated by the reference (a), or the sign operand is not all +1 (b), or >= 2 charged operators (c)")
ASSUMPTIONS = ["parity of a leg group = sum of its charges mod 2 per fermionic component (docstring of swap_gate)",
               "value of a network with swaps := sum over indices of product of elements and (-1)^{p(e1)p(e2)} per swap pair",
               "JW convention: site 0 first in the fermionic order; last listed operator acts first"]
BUDGET = {'quick': 170, 'thorough': 1200}
FSYMS = ['Z2', 'U1', 'Z2xU1', 'U1xU1', 'U1xU1xZ2']
INEFFICIENT = "Likely inefficient order"


def fkey(f):
    return f if isinstance(f, bool) else list(f)


def groups(tier, seed):
    gs = []
    for sym in FSYMS:
        for f in GC.fermionic_values(sym):
            for r in (1, 2, 3, 4):
                gs.append({'kind': 'swap', 'sym': sym, 'f': fkey(f), 'rank': r, 'level': 1 if r <= 3 else 2})
            if f is False:
                continue
            P = 6 if tier == 'quick' else 16
            for part in range(P):
                gs.append({'kind': 'ncon', 'sym': sym, 'f': fkey(f), 'part': part, 'parts': P, 'level': 1})
    for fam in ('spinless', 'spinful', 'tJ'):
        for sym in (('Z2', 'U1') if fam == 'spinless' else ('Z2', 'U1', 'U1xU1', 'U1xU1xZ2')):
            gs.append({'kind': 'fkron', 'fam': fam, 'sym': sym, 'level': 1})
    return gs


def run_group(g, acc):
    {'swap': run_swap, 'ncon': run_ncon, 'fkron': run_fkron}[g['kind']](g, acc)


def _cfg(g):
    f = g['f']
    return GC.make(g['sym'], fermionic=tuple(f) if isinstance(f, list) else f)


# ---------------------------------------------------------------------------------------------
# (a) swap_gate

def leg_groups(r):
    gs = [[i] for i in range(r)]
    if r >= 2:
        gs += [list(c) for c in itertools.combinations(range(r), 2)]
    if r >= 3:
        gs.append(list(range(r)))
    return gs


def swap_axes_args(r, tier):
    G_ = leg_groups(r)
    out = []
    for g1 in G_:
        for g2 in G_:
            out.append([g1, g2])
    pairs = out if (r <= 2 or tier != 'quick') else out[::3]
    two = []
    for p in pairs[:: (1 if r <= 2 else 5)]:
        for q in pairs[1:: (2 if r <= 2 else 7)]:
            two.append(p + q)
    return out, two


def swap_pool(sym, r, tier):
    ms = GL.msize(sym, 2)
    nch = min(2, len(GL.CHARGES[sym]))
    sigs = {1: [[1], [-1]], 2: [[1, -1], [1, 1]], 3: [[1, -1, 1]], 4: [[1, 1, -1, -1]]}[r]
    for sig in sigs:
        for m in ([[i % ms for i in range(r)], [0] * r] if r <= 3 else [[i % ms for i in range(r)]]):
            for n in range(nch):
                for var in (['fresh'], ['lazy', list(range(r))[::-1]]) if r >= 2 else (['fresh'],):
                    yield {'s': sig, 'm': m, 'n': n, 'drop': None if n else [0], 'var': var}


def sign_array(mods, fss, spaces, axes_pairs):
    """dense array of +-1: prod over pairs (g1, g2) of (-1)^{sum_f p_f(g1) p_f(g2)}"""
    shape = tuple(sum(sp.values()) for sp in spaces)
    cv = [MD.charge_vectors(sp) for sp in spaces]
    nf = len(fss)
    # parity per index per fermionic component
    par = [np.array([[t[f] % 2 for f in range(nf)] for t in c], dtype=np.int64).reshape(len(c), nf) for c in cv]
    expo = np.zeros(shape, dtype=np.int64)
    r = len(spaces)
    for g1, g2 in axes_pairs:
        for f in range(nf):
            if not fss[f]:
                continue
            p1 = np.zeros(shape, dtype=np.int64)
            for ax in g1:
                sh = [1] * r
                sh[ax] = shape[ax]
                p1 = p1 + par[ax][:, f].reshape(sh)
            p2 = np.zeros(shape, dtype=np.int64)
            for ax in g2:
                sh = [1] * r
                sh[ax] = shape[ax]
                p2 = p2 + par[ax][:, f].reshape(sh)
            expo += (p1 % 2) * (p2 % 2)
    return 1 - 2 * (expo % 2)


def sign_array_charge(mods, fss, spaces, axes, charges):
    shape = tuple(sum(sp.values()) for sp in spaces)
    cv = [MD.charge_vectors(sp) for sp in spaces]
    nf = len(fss)
    r = len(spaces)
    expo = np.zeros(shape, dtype=np.int64)
    for ax, ch in zip(axes, charges):
        vec = np.array([sum((t[f] % 2) * (ch[f] % 2) for f in range(nf) if fss[f]) for t in cv[ax]], dtype=np.int64)
        sh = [1] * r
        sh[ax] = shape[ax]
        expo = expo + vec.reshape(sh)
    return 1 - 2 * (expo % 2)


def _ax_arg(groups_):
    return tuple(g[0] if len(g) == 1 else tuple(g) for g in groups_)


def run_swap(g, acc):
    sym, r = g['sym'], g['rank']
    cfg = _cfg(g)
    mods = G.moduli(sym)
    fss = G.fss_tuple(cfg.fermionic, len(mods))
    one, two = swap_axes_args(r, acc.tier)
    chs = [tuple(c) for c in GL.CHARGES[sym]]
    for td in swap_pool(sym, r, acc.tier):
        b = GT.build(cfg, sym, td, acc.seed)
        for axes in one + two:
            acc.check_time()
            case = {'kind': 'swap', 'sym': sym, 'f': g['f'], 'td': td, 'axes': axes}
            st, msg, nt = swap_case(case, cfg, b, mods, fss)
            _rec(acc, case, st, msg, nt, 'swap')
        # charge form
        for axs in [[i] for i in range(r)] + ([list(range(r))] if r >= 2 else []) + ([[r - 1, 0]] if r >= 2 else []):
            for ch in chs:
                for per_axis in (False, True):
                    charges = [ch] * len(axs) if not per_axis else [chs[(i + 1) % len(chs)] if i % 2 else ch for i in range(len(axs))]
                    case = {'kind': 'swapc', 'sym': sym, 'f': g['f'], 'td': td, 'axes': axs, 'charges': [list(c) for c in charges],
                            'single': not per_axis}
                    st, msg, nt = swapc_case(case, cfg, b, mods, fss)
                    _rec(acc, case, st, msg, nt, 'swapc')
        # fused operands: groups given by logical (fused) axes
        if r >= 3:
            for mode in ('meta', 'hard'):
                case = {'kind': 'swapf', 'sym': sym, 'f': g['f'], 'td': td, 'mode': mode}
                st, msg, nt = swapf_case(case, cfg, b, mods, fss)
                _rec(acc, case, st, msg, nt, 'swapf')


def _rec(acc, case, st, msg, nt, tag):
    acc.ev(repr(sorted(case.items())), nt and st == 'ok', (tag, st, nt))
    acc.cnt[tag + '_' + st] += 1
    if nt:
        acc.cnt[tag + '_nontrivial_sign'] += 1
    if st == 'viol':
        key = 'ncon:swap-one-leg-of-multi-bond-assertion' if (tag == 'ncon' and 'Sanity check: all bad swaps for this edge' in str(msg)) else None
        acc.fail(case, msg, key=key)
    elif acc.evaluations % 2503 == 0:
        acc.sample(case)


def swap_case(case, cfg, b, mods, fss):
    axes = case['axes']
    pairs = list(zip(axes[0::2], axes[1::2]))
    x = b.x
    st, r = TC.call(lambda: x.swap_gate(axes=_ax_arg(axes)))
    if st != 'ok':
        return 'viol', f"swap_gate(axes={_ax_arg(axes)}): unexpected {st}: {r}", False
    sgn = sign_array(mods, fss, b.spaces, pairs)
    R = b.A * sgn
    nt = bool(np.any((sgn < 0) & (b.A != 0)))
    m = TC.check_result(r, R, b.spaces, b.s, b.n, what=f"swap_gate(axes={_ax_arg(axes)})", exports=False)
    if m:
        return 'viol', m, nt
    if not any(fss) and r._data.tobytes() != x._data.tobytes():
        return 'viol', "swap_gate changes a tensor under bosonic statistics", nt
    r2 = r.swap_gate(axes=_ax_arg(axes))
    if r2._data.tobytes() != x._data.tobytes() or r2.struct != x.struct:
        return 'viol', f"swap_gate(axes={_ax_arg(axes)}) applied twice does not restore the tensor", nt
    return 'ok', None, nt


def swapc_case(case, cfg, b, mods, fss):
    axs, charges = case['axes'], [tuple(c) for c in case['charges']]
    x = b.x
    nsym = len(mods)
    if case['single']:
        carg = charges[0]
    else:
        carg = tuple(charges)
    st, r = TC.call(lambda: x.swap_gate(axes=tuple(axs) if len(axs) > 1 else axs[0], charge=carg))
    if st != 'ok':
        return 'viol', f"swap_gate(axes={axs}, charge={carg}): unexpected {st}: {r}", False
    sgn = sign_array_charge(mods, fss, b.spaces, axs, charges)
    nt = bool(np.any((sgn < 0) & (b.A != 0)))
    m = TC.check_result(r, b.A * sgn, b.spaces, b.s, b.n, what=f"swap_gate(axes={axs}, charge={carg})", exports=False)
    if m:
        return 'viol', m, nt
    r2 = r.swap_gate(axes=tuple(axs) if len(axs) > 1 else axs[0], charge=carg)
    if r2._data.tobytes() != x._data.tobytes():
        return 'viol', "swap_gate(charge=) applied twice does not restore the tensor", nt
    return 'ok', None, nt


def swapf_case(case, cfg, b, mods, fss):
    """fuse legs (0,1) -> logical axes [G, 2, (3)]; swap G with last axis; compare with plain swap of groups"""
    x = b.x
    r = x.ndim
    f = x.fuse_legs(axes=((0, 1),) + tuple(range(2, r)), mode=case['mode'])
    st, res = TC.call(lambda: f.swap_gate(axes=(0, f.ndim - 1)))
    if st != 'ok':
        return 'viol', f"swap_gate on {case['mode']}-fused tensor: unexpected {st}: {res}", False
    sgn = sign_array(mods, fss, b.spaces, [([0, 1], [r - 1])])
    nt = bool(np.any((sgn < 0) & (b.A != 0)))
    u = res.unfuse_legs(axes=0)
    m = TC.check_result(u, b.A * sgn, b.spaces, b.s, b.n, what=f"swap_gate on {case['mode']}-fused legs", exports=False)
    if m:
        return 'viol', m, nt
    # charge form on a fused leg
    ch = tuple(GL.CHARGES[case['sym']][-1])
    st, res = TC.call(lambda: f.swap_gate(axes=0, charge=ch))
    if st != 'ok':
        return 'viol', f"swap_gate(charge=) on {case['mode']}-fused tensor: unexpected {st}: {res}", nt
    sgn = sign_array_charge(mods, fss, b.spaces, [0, 1], [ch, ch])
    u = res.unfuse_legs(axes=0)
    m = TC.check_result(u, b.A * sgn, b.spaces, b.s, b.n, what=f"swap_gate(charge=) on {case['mode']}-fused leg", exports=False)
    return ('viol', m, nt) if m else ('ok', None, nt)


# ---------------------------------------------------------------------------------------------
# (b) ncon with swaps, every order

def swap_sets(labels, tier, npairs):
    """all sets of <= 2 swap pairs over distinct labels (open and contracted)"""
    pairs = list(itertools.combinations(labels, 2))
    out = [[list(p)] for p in pairs]
    mx = 2 if tier == 'quick' else 3
    for k in range(2, mx + 1):
        combos = list(itertools.combinations(pairs, k))
        if k == 3:
            combos = combos[::4]
        out += [[list(p) for p in c] for c in combos]
    return out


def run_ncon(g, acc):
    sym = g['sym']
    cfg = _cfg(g)
    tier = acc.tier
    nets = NW.networks(3, 3, 6, max_open=3, max_selfloops=1) if tier == 'quick' else \
        NW.networks(4, 3, 8, max_open=4, max_selfloops=1)
    k = -1
    for net in nets:
        nt = len(net['ranks'])
        npairs = len(net['pairs'])
        nopen = sum(net['ranks']) - 2 * npairs
        if npairs + nopen < 2:
            continue
        k += 1
        if k % g['parts'] != g['part']:
            continue
        slots_ = NW.slots_of(net['ranks'])
        # a swap on a traced (self-loop) label has no defined meaning (the line would be crossed at both ends):
        # such labels are excluded from the swap alphabet, the networks themselves are kept
        labels = [i for i, (p, q) in enumerate(net['pairs'], start=1) if slots_[p][0] != slots_[q][0]] + \
            [-i for i in range(nopen)]
        if len(labels) < 2:
            continue
        orders = [None] + [list(p) for p in itertools.permutations(range(1, npairs + 1))][1:]
        odds = [tuple(1 if t == 0 else 0 for t in range(nt)), (1,) * nt] if nt > 1 else [(1,), (0,)]
        for sw in swap_sets(labels, tier, npairs):
            for odd in odds:
                for order in orders:
                    acc.check_time()
                    case = {'kind': 'ncon', 'sym': sym, 'f': g['f'], 'net': net, 'swap': sw, 'odd': list(odd), 'order': order}
                    st, msg, ntv = ncon_case(case, cfg, acc.seed)
                    if st == 'skip':
                        continue
                    _rec(acc, case, st, msg, ntv, 'ncon')


def ncon_case(case, cfg, seed):
    sym, net = case['sym'], case['net']
    mods = G.moduli(sym)
    fss = G.fss_tuple(cfg.fermionic, len(mods))
    nt = len(net['ranks'])
    conjs = [0] * nt
    od = NC.operand_descriptors(sym, net, conjs, alt=0, odd=case['odd'], lazy=True, ms_cap=2)
    if od is None:
        return 'skip', None, False
    tds, s_eff, menu = od
    built = [GT.build(cfg, sym, td, seed) for td in tds]
    try:
        R, spaces, sig, ntot, inds = NC.reference(sym, net, built, conjs, None, swaps=case['swap'], fss=fss)
        R0 = NC.reference(sym, net, built, conjs, None)[0]
    except MD.ShadowError:
        return 'skip', None, False
    ntv = not np.array_equal(R, R0)
    ts = [b.x for b in built]
    st, r = TC.call(lambda: yastn.ncon(ts, inds, order=case['order'], swap=[tuple(p) for p in case['swap']]))
    if st == 'yerr' and INEFFICIENT in r:
        return 'rejected', None, ntv
    if st != 'ok':
        return 'viol', f"ncon inds={inds} swap={case['swap']} order={case['order']}: unexpected {st}: {r}", ntv
    m = TC.check_result(r, R, spaces, sig, ntot, exports=False,
                        what=f"ncon(inds={inds}, swap={case['swap']}, order={case['order']}, odd tensors={case['odd']})")
    if m:
        return 'viol', m, ntv
    if case['order'] is None and len(net['pairs']) <= 2:
        sub, ordr, d = NC.einsum_strings(inds, conjs, None)
        swstr = ','.join(d[a] + d[b_] for a, b_ in case['swap'])
        st, r2 = TC.call(lambda: yastn.einsum(sub, *ts, swap=swstr))
        if st == 'yerr' and INEFFICIENT in r2:
            return 'ok', None, ntv
        if st != 'ok':
            return 'viol', f"einsum('{sub}', swap='{swstr}'): unexpected {st}: {r2}", ntv
        m = TC.check_result(r2, R, spaces, sig, ntot, exports=False, what=f"einsum('{sub}', swap='{swstr}')")
        if m:
            return 'viol', m, ntv
    return 'ok', None, ntv


# ---------------------------------------------------------------------------------------------
# (c) fkron

def family(fam, sym):
    if fam == 'spinless':
        ops = yastn.operators.SpinlessFermions(sym=sym)
        O = {'I': ops.I(), 'c': ops.c(), 'cp': ops.cp(), 'n': ops.n()}
        cc = [('c', 'cp')]
    elif fam == 'spinful':
        ops = yastn.operators.SpinfulFermions(sym=sym)
        O = {'I': ops.I(), 'cu': ops.c('u'), 'cd': ops.c('d'), 'cpu': ops.cp('u'), 'cpd': ops.cp('d'), 'nu': ops.n('u'),
             'nd': ops.n('d')}
        cc = [('cu', 'cpu'), ('cd', 'cpd')]
    else:
        ops = yastn.operators.SpinfulFermions_tJ(sym=sym)
        O = {'I': ops.I(), 'cu': ops.c('u'), 'cd': ops.c('d'), 'cpu': ops.cp('u'), 'cpd': ops.cp('d'), 'nu': ops.n('u'),
             'h': ops.h()}
        cc = []
    return ops, O, cc


def run_fkron(g, acc):
    ops, O, cc = family(g['fam'], g['sym'])
    cfg, sp = ops.config, ops.space()
    for c, cp in cc:
        if not JW.car_selfcheck(O[c], O[cp], sp, cfg):
            acc.fail({'kind': 'fkron_selfcheck', 'fam': g['fam'], 'sym': g['sym']}, "JW reference violates the CAR (harness)")
            return
    names = list(O)
    kmax = 3 if acc.tier == 'quick' else 4
    for k in range(1, kmax + 1):
        nm = names if (k <= 2 or len(names) <= 4) else [n for n in names if n not in ('I', 'nd', 'nu', 'h')] + ['I']
        if k == 4:
            nm = [n for n in names if n.startswith('c')][:4] or names
        for tup_ in itertools.product(nm, repeat=k):
            for sites in itertools.permutations(range(k)):
                aos = [None] + ([list(p) for p in itertools.permutations(range(k))][1:] if k <= 3 else [list(range(k))[::-1]])
                if acc.tier == 'quick' and k == 3 and len(names) > 4:
                    aos = aos[:3]
                for ao in aos:
                    acc.check_time()
                    case = {'kind': 'fkron', 'fam': g['fam'], 'sym': g['sym'], 'ops': list(tup_), 'sites': list(sites), 'ao': ao}
                    st, msg, ntv = fkron_case(case, O, sp, cfg)
                    _rec(acc, case, st, msg, ntv, 'fkron')


def fkron_case(case, O, sp, cfg):
    k = len(case['ops'])
    opl = [O[n] for n in case['ops']]
    sites, ao = case['sites'], case['ao']
    st, T = TC.call(lambda: yastn.fkron(*opl, sites=sites, application_order=ao))
    if st != 'ok':
        return 'viol', f"fkron({case['ops']}, sites={sites}, application_order={ao}): unexpected {st}: {T}", False
    spaces = [sp] * k
    A = JW.mpo_like_to_matrix(T, spaces)
    seq = list(zip(opl, sites))
    if ao is not None:
        seq = [seq[i] for i in ao[::-1]]
    ref = JW.product(seq, spaces, cfg)
    ntv = sum(1 for o in opl if any(o.n)) >= 2
    if np.abs(A - ref).max() > 1e-13:
        return 'viol', (f"fkron({case['ops']}, sites={sites}, application_order={ao}) differs from the Jordan-Wigner "
                        f"product (max diff {np.abs(A - ref).max()}, |ref| {np.abs(ref).max()})"), ntv
    zero = tuple(0 for _ in opl[0].n)
    return 'ok', None, ntv


def replay(case):
    k = case['kind']
    if k in ('swap', 'swapc', 'swapf', 'ncon'):
        cfg = _cfg(case)
        mods = G.moduli(case['sym'])
        fss = G.fss_tuple(cfg.fermionic, len(mods))
        seed = case.get('seed', 0)
        if k == 'ncon':
            st, msg, _ = ncon_case(case, cfg, seed)
        else:
            b = GT.build(cfg, case['sym'], case['td'], seed)
            st, msg, _ = {'swap': swap_case, 'swapc': swapc_case, 'swapf': swapf_case}[k](case, cfg, b, mods, fss)
        return [msg] if st == 'viol' else []
    if k == 'fkron':
        ops, O, cc = family(case['fam'], case['sym'])
        st, msg, _ = fkron_case(case, O, ops.space(), ops.config)
        return [msg] if st == 'viol' else []
    return [f"unknown kind {k}"]


def finalize(summary, tier):
    errs = []
    c = summary['cnt']
    for key in ('swap_nontrivial_sign', 'swapc_nontrivial_sign', 'ncon_nontrivial_sign', 'fkron_nontrivial_sign', 'ncon_rejected'):
        if c.get(key, 0) < 50:
            errs.append(f"vacuity: {key} = {c.get(key, 0)}")
    return errs
