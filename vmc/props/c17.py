"""
C17 - Serialisation round-trips every object exactly.
Product enumeration objects x serialisation paths; oracle = observational identity (legs incl. fusion history, signature,
charge, dtype, dense values, behaviour in a follow-up operation), linearity/norm of the meta embedding, rejection of
incompatible config/meta/type.
"""
import io
import itertools
import warnings

import numpy as np
import yastn

from vmc.gen import configs as GC, legs as GL, tensors as GT
from vmc.models import dense as MD, groups as G
from . import _tcommon as TC

PROPERTY_ID = 'C17'
LEVEL = 'exploration'
RULE = ("product enumeration (object descriptor x serialisation path x options); one case = one round trip compared "
        "observationally with the original; non-trivial = object with >= 2 blocks / >= 2 sites; distinct by case hash")
ASSUMPTIONS = ["h5py in-memory (core) driver", "numpy.save/load with allow_pickle for dictionaries"]
BUDGET = {'quick': 150, 'thorough': 900}

PATHS = ['dict0', 'dict1', 'dict2', 'dict0_r', 'dict2_r', 'dict2_cfg', 'generic2', 'split0', 'split0_sq', 'split2', 'npsave2', 'npsave1',
         'legacy', 'ver1', 'hdf5']


def tensor_objects(sym, tier):
    """(descriptor, builder transformation list)"""
    ms = GL.msize(sym, 2)
    nch = min(2, len(GL.CHARGES[sym]))
    out = []
    for r in (0, 1, 2, 3):
        sigs = {0: [[]], 1: [[1], [-1]], 2: [[1, -1], [1, 1]], 3: [[1, -1, 1], [-1, -1, 1]]}[r]
        for sig in sigs:
            for n in range(nch):
                for drop in (None, [0]):
                    for var in GT.variants(r, 1):
                        out.append(({'s': sig, 'm': [i % ms for i in range(r)], 'n': n, 'drop': drop, 'var': var}, []))
    base3 = {'s': [1, -1, 1], 'm': [0, ms - 1, 0], 'n': nch - 1, 'drop': None, 'var': ['fresh']}
    base4 = {'s': [1, 1, -1, -1], 'm': [i % ms for i in range(4)], 'n': nch - 1, 'drop': None, 'var': ['lazy', [3, 2, 1, 0]]}
    for tr in ([['fuse', [[0, 1], 2], 'hard']], [['fuse', [[0, 1], 2], 'meta']], [['fuse', [0, [2, 1]], 'hard'], ['T']],
               [['fuse', [[0, 1], 2], 'meta'], ['fuse', [[0, 1]], 'hard']], [['fuse', [[1, 0], 2], 'hard'], ['fuse', [[1, 0]], 'meta']],
               [['block']], [['block'], ['fuse', [[0, 1], 2], 'hard']], [['mul0']], [['cplx']], [['gt']]):
        out.append((base3, tr))
    for tr in ([['fuse', [[0, 1], [2, 3]], 'hard']], [['fuse', [[0, 1], [2, 3]], 'meta'], ['T']], [['fuse', [[0, 1], 2, 3], 'hard'], ['fuse', [[0, 1], 2], 'hard']]):
        out.append((base4, tr))
    for sig in ([1, -1], [-1, 1]):
        for var in (['fresh'], ['lazy', [1, 0]]):
            out.append(({'s': sig, 'm': [0, 0], 'n': 0, 'drop': None, 'diag': True, 'var': var}, []))
            out.append(({'s': sig, 'm': [0, 0], 'n': 0, 'drop': None, 'diag': True, 'var': var}, [['gt']]))
    out.append(({'s': [1, -1], 'm': [0, 0], 'n': 0, 'drop': [0, 1, 2, 3, 4, 5, 6, 7, 8], 'var': ['fresh']}, []))   # no blocks
    return out


def build_obj(cfg, sym, td, trs, seed):
    x = GT.build(cfg, sym, td, seed).x
    for tr in trs:
        if tr[0] == 'fuse':
            x = x.fuse_legs(axes=tuple(tuple(g) if isinstance(g, list) else g for g in tr[1]), mode=tr[2])
        elif tr[0] == 'T':
            x = x.transpose()
        elif tr[0] == 'block':
            pad = (0,) * (x.ndim - 1)
            x = yastn.block({(0,) + pad: x, (1,) + pad: 2 * x})
        elif tr[0] == 'mul0':
            x = (x * 0).remove_zero_blocks()
        elif tr[0] == 'cplx':
            x = x * (1 + 2j)
        elif tr[0] == 'gt':
            x = x > 0
    return x


def groups(tier, seed):
    gs = []
    for sym in GC.SYMS:
        for dt in ('float64', 'complex128'):
            gs.append({'kind': 'tensor', 'sym': sym, 'dtype': dt, 'level': 1})
        gs.append({'kind': 'meta', 'sym': sym, 'level': 1})
        gs.append({'kind': 'reject', 'sym': sym, 'level': 1})
    gs.append({'kind': 'geometry', 'level': 1})
    from . import c17_containers as CC
    gs.extend(CC.groups(tier))
    return gs


def run_group(g, acc):
    if g['kind'] == 'tensor':
        return run_tensor(g, acc)
    if g['kind'] == 'meta':
        return run_meta(g, acc)
    if g['kind'] == 'reject':
        return run_reject(g, acc)
    if g['kind'] == 'geometry':
        return run_geometry(g, acc)
    from . import c17_containers as CC
    return CC.run_group(g, acc)


# ---------------------------------------------------------------------------------------------

def same_tensor(a, b, what):
    """observational identity"""
    if not isinstance(b, yastn.Tensor):
        return f"{what}: restored object is {type(b).__name__}"
    if a.ndim != b.ndim or a.ndim_n != b.ndim_n:
        return f"{what}: rank {b.ndim}/{b.ndim_n} instead of {a.ndim}/{a.ndim_n}"
    if a.isdiag != b.isdiag or tuple(a.n) != tuple(b.n) or a.yastn_dtype != b.yastn_dtype:
        return f"{what}: isdiag/n/dtype = {b.isdiag}/{b.n}/{b.yastn_dtype} instead of {a.isdiag}/{a.n}/{a.yastn_dtype}"
    if tuple(a.s) != tuple(b.s) or tuple(a.s_n) != tuple(b.s_n):
        return f"{what}: signature {b.s} instead of {a.s}"
    if b.config.sym.SYM_ID != a.config.sym.SYM_ID or b.config.fermionic != a.config.fermionic:
        return f"{what}: configuration sym/fermionic changed"
    la, lb = a.get_legs(), b.get_legs()
    for i, (x, y) in enumerate(zip(la, lb)):
        if _lk(x) != _lk(y):
            return f"{what}: leg {i} {y} differs from the original {x} (sectors or fusion history)"
    try:
        b.is_consistent()
    except Exception as e:
        return f"{what}: restored tensor is not consistent: {e!r}"
    da, db = a.to_numpy(native=True), b.to_numpy(native=True)
    if da.shape != db.shape or da.dtype != db.dtype or not np.array_equal(da, db):
        return f"{what}: dense values differ"
    if a.ndim >= 1 and not a.isdiag and a.yastn_dtype != 'bool':
        ax = tuple(range(a.ndim))
        fa = yastn.tensordot(a, a, axes=(ax[:1], ax[:1]), conj=(0, 1))
        fb = yastn.tensordot(b, a, axes=(ax[:1], ax[:1]), conj=(0, 1))
        if not np.array_equal(fa.to_numpy(native=True), fb.to_numpy(native=True)):
            return f"{what}: restored tensor behaves differently in a contraction with the original"
        sa, sb = a + a, a + b
        if not np.array_equal(sa.to_numpy(native=True), sb.to_numpy(native=True)):
            return f"{what}: original + restored differs from original + original"
    return None


def _lk(l):
    if type(l).__name__ == 'LegMeta':
        return ('m', l.s, l.t, l.D, l.mf, tuple(_lk(x) for x in l.legs))
    return ('h', l.s, l.t, l.D, l.hf)


def roundtrip(x, path, cfg):
    """returns the restored tensor (raises on failure)"""
    if path in ('dict0', 'dict1', 'dict2'):
        return yastn.Tensor.from_dict(x.to_dict(level=int(path[-1])))
    if path == 'dict0_r':
        return yastn.Tensor.from_dict(x.to_dict(level=0, resolve_ops=True))
    if path == 'dict2_r':
        return yastn.from_dict(x.to_dict(level=2, resolve_ops=True))
    if path == 'dict2_cfg':
        return yastn.Tensor.from_dict(x.to_dict(level=2), config=cfg)
    if path == 'generic2':
        return yastn.from_dict(x.to_dict(level=2))
    if path in ('split0', 'split0_sq', 'split2'):
        lvl = 0 if path.startswith('split0') else 2
        data, meta = yastn.split_data_and_meta(x.to_dict(level=lvl), squeeze=path.endswith('_sq'))
        return yastn.Tensor.from_dict(yastn.combine_data_and_meta(data, meta))
    if path in ('npsave2', 'npsave1'):
        buf = io.BytesIO()
        np.save(buf, x.to_dict(level=int(path[-1])), allow_pickle=True)
        buf.seek(0)
        d = np.load(buf, allow_pickle=True).item()
        return yastn.from_dict(d)
    if path == 'legacy':
        with warnings.catch_warnings():
            warnings.simplefilter('ignore')
            d = x.save_to_dict()
        return yastn.load_from_dict(config=cfg, d=d)
    if path == 'ver1':
        d = x.consume_transpose().to_dict(level=2)
        d.pop('trans')
        d['dict_ver'] = 1
        return yastn.Tensor.from_dict(d)
    if path == 'hdf5':
        import h5py
        with h5py.File('c17-inmemory.h5', 'w', driver='core', backing_store=False) as f:
            x.save_to_hdf5(f, 'grp/t')
            return yastn.load_from_hdf5(cfg, f, 'grp/t')
    raise KeyError(path)


def run_tensor(g, acc):
    sym = g['sym']
    cfg = GC.make(sym, dtype=g['dtype'])
    for td, trs in tensor_objects(sym, acc.tier):
        x = build_obj(cfg, sym, td, trs, acc.seed)
        before = (x._data.tobytes(), x.struct, x.slices, x.trans, x.mfs, x.hfs)
        for path in PATHS:
            acc.check_time()
            case = {'kind': 'tensor', 'sym': sym, 'dtype': g['dtype'], 'td': td, 'trs': trs, 'path': path}
            st, msg = tensor_case(case, cfg, x)
            acc.ev(repr(case), len(x.get_blocks_charge()) >= 2 and st == 'ok', (path, st))
            acc.cnt['tensor_' + st] += 1
            if st == 'viol':
                acc.fail(case, msg)
            elif acc.evaluations % 1013 == 0:
                acc.sample(case)
        if (x._data.tobytes(), x.struct, x.slices, x.trans, x.mfs, x.hfs) != before:
            acc.fail({'kind': 'tensor', 'sym': sym, 'dtype': g['dtype'], 'td': td, 'trs': trs, 'path': 'any'}, "serialisation modified the tensor")


def tensor_case(case, cfg, x=None):
    if x is None:
        x = build_obj(cfg, case['sym'], case['td'], case['trs'], case.get('seed', 0))
    path = case['path']
    if x.yastn_dtype == 'bool' and path not in ('dict0', 'dict1', 'dict0_r', 'split0', 'split0_sq', 'npsave1'):
        return 'skip', None    # boolean masks are restored in the default dtype at level 2 (values 0/1 kept): not claimed
    st, y = TC.call(roundtrip, x, path, cfg)
    if st != 'ok':
        return 'viol', f"round trip {path}: {st}: {y}"
    m = same_tensor(x, y, f"round trip {path}")
    if m:
        return 'viol', m
    if path in ('dict2', 'npsave2', 'hdf5', 'legacy', 'split2') and y.size and y.yastn_dtype != 'bool':
        snap = x._data.tobytes()
        y._data *= 0
        if x._data.tobytes() != snap:
            return 'viol', f"round trip {path} (level 2): the restored tensor shares memory with the original"
    return 'ok', None


# ---------------------------------------------------------------------------------------------
# meta embedding

def run_meta(g, acc):
    sym = g['sym']
    cfg = GC.make(sym)
    ms = GL.msize(sym, 3)
    nch = min(2, len(GL.CHARGES[sym]))
    shapes = [([1, -1], None), ([1, 1], None), ([1, -1, 1], None), ([1, 1], [1, 0]), ([1, 1, -1, -1], [1, 0, 3, 2]), ([1, -1, 1], [2, 1, 0])]
    for sig, lazy in shapes:
        r = len(sig)
        same_m = [0] * r
        for mb in ([same_m, [i % ms for i in range(r)]] if ms > 1 else [same_m]):
            for n in range(nch):
                for drop_a in (None, [0], [1]):
                    for drop_b in (None, [0]):
                        for lvl in (0, 2):
                            for fuse in (None, 'hard', 'meta'):
                                if fuse and r < 3:
                                    continue
                                for lazy_b in ((False, True) if (lazy and not fuse) else (False,)):
                                    acc.check_time()
                                    case = {'kind': 'meta', 'sym': sym, 's': sig, 'lazy': lazy, 'm': mb, 'n': n, 'drop_a': drop_a, 'drop_b': drop_b,
                                            'level': lvl, 'fuse': fuse, 'lazy_b': lazy_b}
                                    for lazy_a in ((True, False) if lazy_b else (True,)):
                                        case = dict(case, lazy_a=lazy_a)
                                        st, msg = meta_case(case, cfg, acc.seed)
                                        acc.ev(repr(case), st == 'ok', (st, lvl, lazy_b, lazy_a))
                                        acc.cnt['meta_' + st] += 1
                                        if lazy_b:
                                            acc.cnt['meta_from_lazy_' + st] += 1
                                        if st == 'viol':
                                            acc.fail(case, msg)
                                        elif acc.evaluations % 211 == 0:
                                            acc.sample(case)


def meta_case(case, cfg, seed):
    sym = case['sym']

    plain = {}

    def mk(tag, drop):
        td = {'s': case['s'], 'm': case['m'], 'n': case['n'], 'drop': drop, 'var': ['fresh'], 'id': tag}
        x = GT.build(cfg, sym, td, seed).x
        plain[tag] = x
        if case['fuse']:
            x = x.fuse_legs(axes=((0, 1),) + tuple(range(2, x.ndim)), mode=case['fuse'])
        return x
    b = mk('b', case['drop_b'])           # provides the meta
    a = mk('a', case['drop_a'])
    a2 = mk('a2', case['drop_a'])
    lazy = case['lazy']
    lvl = case['level']
    if case.get('lazy_b') and lazy and not case['fuse']:
        b = b.transpose(tuple(lazy))      # the meta itself comes from a lazily transposed tensor
    _, meta = yastn.split_data_and_meta(b.to_dict(level=lvl), squeeze=True)
    # the tensors to serialise may carry a pending transpose that leaves the legs in place (identical permuted legs)
    if lazy and not case['fuse'] and case.get('lazy_a', True):
        a, a2 = a.transpose(tuple(lazy)), a2.transpose(tuple(lazy))
    # "a is contained in the structure of meta": judged on the plain (unfused) tensors
    pa, pb = plain['a'], plain['b']
    subset = set(pa.get_blocks_charge()) <= set(pb.get_blocks_charge())
    if lazy and not case['fuse']:
        pbl = b.consume_transpose() if case.get('lazy_b') else pb
        subset = set(a.consume_transpose().get_blocks_charge()) <= set(pbl.get_blocks_charge()) and \
            a.consume_transpose().get_signature() == pbl.get_signature() and _legs_compatible(a, pbl)

    def vec(t):
        d = t.to_dict(level=lvl, meta=meta)
        v, _ = yastn.split_data_and_meta(d, squeeze=True)
        return np.asarray(v)
    st, va = TC.call(vec, a)
    if not subset and case['fuse'] and st == 'ok':
        subset = True      # hard fusion merges blocks: containment at the fused level is possible; the result must then be right
    if case.get('lazy_b') and st == 'yerr':
        return 'rejected', None      # a meta with a pending transpose may be refused; if accepted the round trip must be exact
    if not subset:
        if st == 'yerr':
            return 'rejected', None
        if st == 'exc':
            return 'viol', f"to_dict(meta=...) with an incompatible meta raised {va}"
        return 'viol', "to_dict(meta=...) accepted a tensor that is not contained in the structure of meta"
    if st != 'ok':
        return 'viol', f"to_dict(meta=...) on a tensor contained in meta: {st}: {va}"
    if va.shape != (b.size,):
        return 'viol', f"vector has shape {va.shape}, meta describes {b.size} elements"
    back = yastn.Tensor.from_dict(yastn.combine_data_and_meta(va, meta))
    ref = a.consume_transpose()
    if back.get_signature() != ref.get_signature() or tuple(back.n) != tuple(ref.n):
        return 'viol', "tensor rebuilt from (vector, meta) has a different signature/charge"
    try:
        diff = (back - ref).norm(p='inf')
    except yastn.YastnError as e:
        return 'viol', f"tensor rebuilt from (vector, meta) is incompatible with the original: {e}"
    if diff != 0:
        return 'viol', f"tensor rebuilt from (vector, meta) differs from the serialised tensor (max |diff| = {diff})"
    if np.sum(np.abs(va) ** 2) != np.sum(np.abs(a._data) ** 2):
        return 'viol', "the embedding into the meta vector does not preserve the norm"
    v2 = vec(a2)
    vs = vec(a + a2)
    vm = vec(3 * a)
    if not np.array_equal(vs, va + v2) or not np.array_equal(vm, 3 * va):
        return 'viol', "the embedding into the meta vector is not linear"
    return 'ok', None


def _legs_compatible(a, b):
    la, lb = a.get_legs(), b.get_legs()
    for x, y in zip(la, lb):
        tx, ty = dict(zip(x.t, x.D)), dict(zip(y.t, y.D))
        if any(tx[k] != ty[k] for k in tx.keys() & ty.keys()):
            return False
    return True


# ---------------------------------------------------------------------------------------------
# rejection of incompatible config / type

def run_reject(g, acc):
    sym = g['sym']
    cfg = GC.make(sym)
    ms = GL.msize(sym, 2)
    x = GT.build(cfg, sym, {'s': [1, -1], 'm': [0, 0], 'n': 0, 'drop': None, 'var': ['fresh']}, acc.seed).x
    others = [s for s in GC.SYMS if s != sym]
    for lvl in (0, 1, 2):
        d = x.to_dict(level=lvl)
        for osym in others:
            case = {'kind': 'reject', 'sym': sym, 'level': lvl, 'other': osym, 'what': 'sym'}
            st, r = TC.call(lambda: yastn.Tensor.from_dict(dict(d), config=GC.make(osym)))
            _rej(acc, case, st, r)
        if cfg.sym.NSYM >= 1:
            case = {'kind': 'reject', 'sym': sym, 'level': lvl, 'what': 'fermionic'}
            st, r = TC.call(lambda: yastn.Tensor.from_dict(dict(d), config=GC.make(sym, fermionic=True)))
            _rej(acc, case, st, r)
        case = {'kind': 'reject', 'sym': sym, 'level': lvl, 'what': 'type'}
        d2 = dict(d)
        d2['type'] = 'MpsMpoOBC'
        st, r = TC.call(lambda: yastn.Tensor.from_dict(d2))
        _rej(acc, case, st, r)
        case = {'kind': 'reject', 'sym': sym, 'level': lvl, 'what': 'dict_ver'}
        d3 = dict(d)
        d3['dict_ver'] = 99
        st, r = TC.call(lambda: yastn.Tensor.from_dict(d3))
        _rej(acc, case, st, r)
    with warnings.catch_warnings():
        warnings.simplefilter('ignore')
        dl = x.save_to_dict()
    for osym in others[:2]:
        st, r = TC.call(lambda: yastn.load_from_dict(config=GC.make(osym), d=dict(dl)))
        _rej(acc, {'kind': 'reject', 'sym': sym, 'what': 'legacy_sym', 'other': osym}, st, r)
    st, r = TC.call(lambda: yastn.Tensor.from_dict(dict(dl)))
    _rej(acc, {'kind': 'reject', 'sym': sym, 'what': 'legacy_noconfig'}, st, r)
    acc.sample({'kind': 'reject', 'sym': sym, 'what': ['sym', 'fermionic', 'type', 'dict_ver', 'legacy']})


def _rej(acc, case, st, r):
    msg = None
    if st == 'ok':
        msg = f"incompatible {case['what']} was accepted by from_dict"
    elif st == 'exc':
        msg = f"incompatible {case['what']}: raised {r} instead of YastnError"
    acc.ev(repr(case), msg is None, (case['what'], st))
    acc.cnt['reject_' + st] += 1
    if msg:
        acc.fail(case, msg)


# ---------------------------------------------------------------------------------------------
# lattice geometries

def geometry_objects():
    import yastn.tn.fpeps as fpeps
    out = []
    for b in ('obc', 'infinite', 'cylinder'):
        for dims in ((1, 1), (2, 3), (3, 2)):
            out.append(('SquareLattice', dict(dims=dims, boundary=b)))
    out.append(('CheckerboardLattice', {}))
    for pat in ([[0]], [[0, 1]], [[0, 1], [1, 0]], [[0, 1, 2], [1, 2, 0], [2, 0, 1]], [[3, 5], [5, 3]]):
        out.append(('RectangularUnitcell', dict(pattern=pat)))
    out.append(('RectangularUnitcell', dict(pattern={(0, 0): 'a', (0, 1): 'b'})))
    out.append(('TriangularLattice', {}))
    for fp in (False, True):
        for dims, b in (((3, 3), 'infinite'), ((2, 3), 'infinite'), ((2, 2), 'obc'), ((3, 2), 'cylinder')):
            if not fp and (dims, b) != ((3, 3), 'infinite'):
                continue
            out.append(('TriangularLattice', dict(dims=dims, boundary=b, full_patch=fp)))
    return out


def run_geometry(g, acc):
    import yastn.tn.fpeps as fpeps
    for i, (cls, kw) in enumerate(geometry_objects()):
        case = {'kind': 'geometry', 'i': i, 'cls': cls, 'kw': repr(kw)}
        msg = geometry_case(i)
        acc.ev(repr(case), msg is None, (cls, msg is None))
        acc.cnt['geometry_' + ('ok' if msg is None else 'viol')] += 1
        if msg:
            acc.fail(case, msg, key=f"geometry:{cls}:{kw.get('full_patch')}:{kw.get('boundary')}:{kw.get('dims')}" if cls == 'TriangularLattice' else None)
    acc.sample({'kind': 'geometry', 'classes': sorted({c for c, _ in geometry_objects()})})


def geometry_case(i):
    import yastn.tn.fpeps as fpeps
    from yastn.tn.fpeps._geometry import LATTICE_CLASSES
    cls, kw = geometry_objects()[i]
    G = getattr(fpeps, cls)(**kw)
    try:
        d = G.to_dict()
        ctor = LATTICE_CLASSES[d['type']]
        args = {k: v for k, v in d.items() if k not in ('type', 'dict_ver')}
        G2 = ctor(**args)
    except Exception as e:
        return f"{cls}({kw}): to_dict/rebuild raised {type(e).__name__}: {e}"
    if not (G2 == G):
        return f"{cls}({kw}): geometry rebuilt from to_dict() is not equal to the original (to_dict = {d})"
    if tuple(G2.dims) != tuple(G.dims) or G2.boundary != G.boundary or list(G2.sites()) != list(G.sites()) or list(G2.bonds()) != list(G.bonds()):
        return f"{cls}({kw}): geometry rebuilt from to_dict() has different dims/boundary/sites/bonds (to_dict = {d})"
    # through a Lattice container
    class O:
        def __init__(self, v):
            self.v = v

        def to_dict(self, level=2, resolve_ops=False):
            return yastn.Tensor(config=yastn.make_config(sym='dense')).to_dict(level=level)
    cfg = yastn.make_config(sym='dense')
    objs = {}
    L = fpeps.Lattice(G)
    for k, s in enumerate(G.sites()):
        t = yastn.Tensor(config=cfg, s=(1,))
        t.set_block(Ds=(2,), val=np.array([float(k), 1.0]))
        L[s] = t
    for lvl in (0, 2):
        try:
            L2 = yastn.from_dict(L.to_dict(level=lvl))
        except Exception as e:
            return f"Lattice on {cls}({kw}): round trip raised {type(e).__name__}: {e}"
        if not (L2.geometry == G) or list(L2.sites()) != list(G.sites()):
            return f"Lattice on {cls}({kw}): restored geometry differs (dims {L2.dims} boundary {L2.boundary} sites {list(L2.sites())})"
        for s in G.sites():
            if not np.array_equal(L2[s].to_numpy(), L[s].to_numpy()):
                return f"Lattice on {cls}({kw}): object at {s} differs after round trip"
    return None


def replay(case):
    k = case['kind']
    if k == 'tensor':
        cfg = GC.make(case['sym'], dtype=case['dtype'])
        st, msg = tensor_case(case, cfg)
        return [msg] if st == 'viol' else []
    if k == 'meta':
        st, msg = meta_case(case, GC.make(case['sym']), case.get('seed', 0))
        return [msg] if st == 'viol' else []
    if k == 'geometry':
        m = geometry_case(case['i'])
        return [m] if m else []
    if k == 'reject':
        acc = _Mini()
        run_reject({'sym': case['sym']}, acc)
        return [v['msg'] for v in acc.violations if v['case'].get('what') == case['what']][:2]
    from . import c17_containers as CC
    return CC.replay(case)


class _Mini:
    def __init__(self):
        import collections
        self.violations, self.cnt = [], collections.Counter()
        self.evaluations = 0
        self.tier, self.seed = 'quick', 0

    def ev(self, *a, **k):
        pass

    def fail(self, case, msg, key=None):
        self.violations.append({'case': case, 'msg': msg})

    def sample(self, c):
        pass

    def check_time(self):
        pass


def finalize(summary, tier):
    errs = []
    c = summary['cnt']
    if c.get('tensor_ok', 0) < 5000 or c.get('meta_ok', 0) < 200 or c.get('meta_rejected', 0) < 50 or c.get('reject_yerr', 0) < 50:
        errs.append(f"vacuity: {dict(c)}")
    return errs
