"""
C09 - DMRG is variational and self-consistent.
Grid enumeration: Hamiltonian families with couplings from finite alphabets (incl. complex hopping) x N x initial states
(charges, bond dimensions, real/complex) x methods (1site, 2site, switch) x opts_eigs x opts_svd x precompute x project;
every intermediate sweep is observed through iterator=True.  Oracle: dense H (Hermitian), its spectrum in the charge
sector, inequalities that hold regardless of convergence + convergence-gated clauses.
"""
import collections
import itertools

import numpy as np
import yastn
import yastn.tn.mps as mps

from vmc.gen import mpsgen as MG
from . import _tcommon as TC

PROPERTY_ID = 'C09'
LEVEL = 'exploration'
RULE = ("grid enumeration (family, symmetry, couplings, N, charge, initial bond dimension, dtype, method, eigs/svd options, precompute, "
        "projection); one evaluation = one observed sweep with all invariants checked; non-trivial = sector dimension >= 3; distinct by "
        "hash of (run descriptor, sweep index)")
ASSUMPTIONS = ["dense H from to_tensor (Hermiticity asserted)", "energy monotonicity margin 1e-10 (largest increase observed on the unchanged tree 1.3e-15)",
               "convergence certificate: two consecutive sweeps with |dE| < 1e-12 at maximal bond dimension"]
BUDGET = {'quick': 170, 'thorough': 1200}


def hamiltonians(loc, N, tier):
    """list of (name, list of Hterms groups) - each Hamiltonian as terms; also split into two parts for sums of MPOs"""
    O = loc.O
    out = []
    if loc.fam == 'spinless':
        for t, V, mu in itertools.product((-1.0, 0.5, 0.5 + 0.3j), (0.0, 1.3), (0.0, -0.7)):
            if isinstance(t, complex) and (V, mu) != (1.3, -0.7):
                continue
            hop, rest = [], []
            for i in range(N - 1):
                hop.append(mps.Hterm(t, [i, i + 1], [O['cp'], O['c']]))
                hop.append(mps.Hterm(np.conj(t), [i + 1, i], [O['cp'], O['c']]))
                if V:
                    rest.append(mps.Hterm(V, [i, i + 1], [O['n'], O['n']]))
            for i in range(N):
                if mu:
                    rest.append(mps.Hterm(mu * (1 + 0.1 * i), [i], [O['n']]))
            out.append((f'tV(t={t},V={V},mu={mu})', hop, rest))
    elif loc.fam == 'spin12':
        for J, D, h in itertools.product((1.0, -0.5), (0.0, 1.5), (0.0, 0.3)):
            a, b = [], []
            for i in range(N - 1):
                a.append(mps.Hterm(J / 2, [i, i + 1], [O['sp'], O['sm']]))
                a.append(mps.Hterm(J / 2, [i, i + 1], [O['sm'], O['sp']]))
                if D:
                    b.append(mps.Hterm(D / 4, [i, i + 1], [O['z'], O['z']]))
            for i in range(N):
                if h:
                    b.append(mps.Hterm(h * (1 + 0.2 * i) / 2, [i], [O['z']]))
            out.append((f'XXZ(J={J},D={D},h={h})', a, b))
        if loc.sym in ('dense', 'Z2'):
            a = [mps.Hterm(-1.0, [i, i + 1], [O['x'], O['x']]) for i in range(N - 1)]
            b = [mps.Hterm(-0.8, [i], [O['z']]) for i in range(N)]
            out.append(('Ising(g=0.8)', a, b))
    elif loc.fam == 'spin1':
        a, b = [], []
        for i in range(N - 1):
            a.append(mps.Hterm(0.5, [i, i + 1], [O['sp'], O['sm']]))
            a.append(mps.Hterm(0.5, [i, i + 1], [O['sm'], O['sp']]))
            b.append(mps.Hterm(1.0, [i, i + 1], [O['sz'], O['sz']]))
        out.append(('Heisenberg1', a, b))
    elif loc.fam == 'spinful':
        for U in (0.0, 2.0):
            a, b = [], []
            for i in range(N - 1):
                for s_ in 'ud':
                    a.append(mps.Hterm(-1.0, [i, i + 1], [O['cp' + s_], O['c' + s_]]))
                    a.append(mps.Hterm(-1.0, [i + 1, i], [O['cp' + s_], O['c' + s_]]))
            for i in range(N):
                if U:
                    b.append(mps.Hterm(U, [i, i], [O['nu'], O['nd']]))
                b.append(mps.Hterm(-0.3 * (1 + i), [i], [O['nu']]))
            out.append((f'Hubbard(U={U})', a, b))
    return out


def sector_indices(loc, N, n):
    sym = loc.config.sym
    if sym.NSYM == 0:
        return np.arange(loc.d ** N)
    cv = []
    for t, D in zip(loc.space.t, loc.space.D):
        cv += [tuple(t)] * D
    idx = []
    for k, conf in enumerate(itertools.product(range(loc.d), repeat=N)):
        tot = sym.zero()
        for c in conf:
            tot = sym.add_charges(tot, cv[c])
        if tuple(tot) == tuple(n):
            idx.append(k)
    return np.array(idx, dtype=np.int64)


def groups(tier, seed):
    gs = []
    fams = [('spinless', 'Z2'), ('spinless', 'U1'), ('spin12', 'dense'), ('spin12', 'Z2'), ('spin12', 'U1'), ('spin1', 'U1'), ('spin1', 'Z3'),
            ('spinful', 'U1xU1'), ('spinful', 'U1xU1xZ2')]
    for fam, sym in fams:
        for N in ((2, 3, 4) if tier == 'quick' else (2, 3, 4, 5, 6)):
            if fam == 'spinful' and N > 3:
                continue
            if fam == 'spin1' and N > 4:
                continue
            for part in range(2):
                gs.append({'fam': fam, 'sym': sym, 'N': N, 'part': part, 'level': 1 if N <= 3 else 2})
    return gs


def option_grid(N, tier):
    methods = ['1site', '2site', 'switch']
    eigs = [None, {'hermitian': True, 'ncv': 2, 'which': 'SR'}, {'hermitian': True, 'ncv': 6, 'which': 'SR'}]
    svds = [{'tol': 1e-14}, {'D_total': 2}]
    pre = [False, True]
    full = list(itertools.product(methods, range(3), range(2), pre))
    if N == 3 or tier != 'quick':
        return [(m, eigs[e], svds[s], p) for m, e, s, p in full]
    red = [('1site', 0, 0, False), ('2site', 0, 0, False), ('switch', 1, 0, True), ('2site', 2, 1, True), ('1site', 2, 0, True), ('2site', 1, 1, False)]
    return [(m, eigs[e], svds[s], p) for m, e, s, p in red]


def run_group(g, acc):
    loc = MG.Local(g['fam'], g['sym'])
    N = g['N']
    hams = hamiltonians(loc, N, acc.tier)
    charges = loc.charges_N(N)
    chs = list(dict.fromkeys([charges[len(charges) // 2], charges[max(0, len(charges) // 2 - 1)]]))
    k = -1
    for hname, ta, tb in hams:
        k += 1
        if k % 2 != g['part']:
            continue
        I = loc.I_mpo(N)
        H = mps.generate_mpo(I, ta + tb)
        Hd = MG.dense_mat(H, loc)
        if np.abs(Hd - Hd.conj().T).max() > 1e-12:
            acc.fail({'fam': g['fam'], 'sym': g['sym'], 'N': N, 'H': hname}, "harness: generated Hamiltonian is not Hermitian")
            continue
        Hsum = [mps.generate_mpo(I, ta), mps.generate_mpo(I, tb)] if ta and tb else None
        cplxH = np.abs(Hd.imag).max() > 1e-12
        for n in chs:
            idx = sector_indices(loc, N, n)
            if len(idx) == 0:
                continue
            w, U = np.linalg.eigh(Hd[np.ix_(idx, idx)])
            base = {'fam': g['fam'], 'sym': g['sym'], 'N': N, 'H': hname, 'n': list(n)}
            Dmax = len(idx)
            for D in dict.fromkeys((1, 2, max(4, Dmax))):
                for cplx in ((False, True) if (cplxH or (D == 2 and N == 3)) else (False,)):
                    if cplxH and not cplx:
                        continue
                    for (method, oe, osvd, pre) in option_grid(N, acc.tier):
                        for Hform in (('single',) if (Hsum is None or method != '2site' or pre) else ('single', 'sum')):
                            acc.check_time()
                            run = dict(base, D=D, cplx=cplx, method=method, eigs=oe, svd=osvd, pre=pre, Hform=Hform)
                            dmrg_run(run, loc, H if Hform == 'single' else Hsum, Hd, idx, w, acc, Dmax)
                            if D == 2 and Hform == 'single' and not pre and oe is None:
                                # a canonical input with a non-unit factor (e.g. 2*psi) must come back normalized as well
                                dmrg_run(dict(run, prep='canonical_factor2'), loc, H, Hd, idx, w, acc, Dmax)
            if n == chs[0]:
                stopping_runs(base, loc, H, Hd, idx, acc, Dmax)
            # projection: ground state, then first excited state
            project_runs(base, loc, H, Hd, idx, w, U, acc, cplxH)


def start_state(loc, N, n, D, cplx, seed, tag):
    return MG.random_state(loc, N, n, D, (seed, 'c09', loc.fam, loc.sym, N, tuple(n), D, cplx, tag), integer=False, cplx=cplx)


def dmrg_run(run, loc, H, Hd, idx, w, acc, Dmax):
    N, n = run['N'], tuple(run['n'])
    psi = start_state(loc, N, n, run['D'], run['cplx'], acc.seed, 'init')
    if psi is None:
        return
    if run.get('prep') == 'canonical_factor2':
        psi.canonize_(to='first')
        psi.factor = 2 * psi.factor
    leg0 = psi.virtual_leg('first')
    method = run['method']
    meth = yastn.Method('2site') if method == 'switch' else method
    nsweeps = 4
    nobind = (method == '1site') or ('D_total' not in run['svd'])
    kw = dict(method=meth, max_sweeps=nsweeps, iterator=True, opts_svd=dict(run['svd']), precompute=run['pre'])
    if run['eigs'] is not None:
        kw['opts_eigs'] = dict(run['eigs'])
    st, it = TC.call(lambda: mps.dmrg_(psi, H, **kw))
    if st != 'ok':
        acc.fail(run, f"dmrg_ setup: {st}: {it}")
        return
    Eprev, dEs = None, []
    for sweep in range(1, nsweeps + 1):
        if method == 'switch' and sweep == 3:
            meth.update_('1site')
        st, out = TC.call(lambda: next(it))
        if st != 'ok':
            if st == 'exc' and 'StopIteration' in str(out):
                break
            acc.fail(dict(run, sweep=sweep), f"dmrg_ sweep {sweep}: {st}: {out}")
            return
        msg = None
        v = MG.dense_vec(psi, loc)
        nv = np.linalg.norm(v)
        E = float(np.real(out.energy))
        Ed = float(np.real(np.vdot(v, Hd @ v) / max(nv ** 2, 1e-300)))
        outside = np.linalg.norm(np.delete(v, idx)) if len(idx) < len(v) else 0.0
        cur_nobind = nobind or (method == 'switch' and sweep >= 3)
        if abs(nv - 1) > 1e-9:
            msg = f"after sweep {sweep} the state has norm {nv}"
        elif not psi.is_canonical(to='first'):
            msg = f"after sweep {sweep} the state is not canonical to 'first'"
        elif psi.virtual_leg('first') != leg0 or outside > 1e-10:
            msg = f"after sweep {sweep} the state left its charge sector (weight outside {outside})"
        elif abs(E - Ed) > 1e-9 * max(1, abs(Ed)):
            msg = f"sweep {sweep}: reported energy {E} but <psi|H|psi> = {Ed}"
        elif E < w[0] - 1e-9 * max(1, abs(w[0])):
            msg = f"sweep {sweep}: energy {E} below the lowest eigenvalue {w[0]} of the sector"
        elif Eprev is not None and (nobind if method != 'switch' else sweep != 3 and (sweep > 3 or 'D_total' not in run['svd'])) and E > Eprev + 1e-10 * max(1, abs(Eprev)):
            msg = f"sweep {sweep}: energy increased from {Eprev} to {E} although no truncation binds"
        elif out.sweeps != sweep:
            msg = f"sweep counter {out.sweeps} after {sweep} sweeps"
        elif Eprev is not None and abs(out.denergy - abs(E - Eprev)) > 1e-9 * max(1, abs(E)):
            msg = f"sweep {sweep}: reported denergy {out.denergy} but |E - E_prev| = {abs(E - Eprev)}"
        if Eprev is not None:
            dEs.append(abs(E - Eprev))
        # convergence certificate at maximal bond dimension
        # (a 1-site run can stall on a plateau of its fixed bond sectors, which is not an eigenstate: the certificate is
        #  used only for runs whose sweeps so far include 2-site updates with non-binding truncation)
        if not msg and method != '1site' and run['D'] >= Dmax and len(dEs) >= 2 and dEs[-1] < 1e-12 and dEs[-2] < 1e-12 and 'D_total' not in run['svd']:
            res = np.linalg.norm(Hd @ v - Ed * v)
            acc.cnt['converged_runs'] += 1
            if res > 1e-6 * max(1, abs(Ed)):
                msg = f"converged at maximal bond dimension (two sweeps with |dE| < 1e-12) but |H psi - E psi| = {res}"
        Eprev = E
        acc.ev(repr((run, sweep)), len(idx) >= 3 and msg is None, (method, msg is None, cur_nobind))
        acc.cnt['sweeps_observed'] += 1
        if msg:
            key = 'dmrg:eigs-ncv-exceeds-local-dimension' if (run['eigs'] or {}).get('ncv', 0) >= 6 and 'energy increased' in msg else None
            acc.fail(dict(run, sweep=sweep), msg, key=key)
            return
        if acc.evaluations % 997 == 0:
            acc.sample(dict(run, sweep=sweep))


STOP_TOLS = [(1e-6, None), (None, 1e-5), (1e-6, 1e-8), (1e-11, 1e-3)]


def stopping_runs(base, loc, H, Hd, idx, acc, Dmax):
    """stopping rule: a run that ends before max_sweeps satisfies EVERY tolerance it was given, and it ends at the first
    sweep at which they are all met (the per-sweep sequence is read from an iterator run that cannot stop early)"""
    N, n = base['N'], tuple(base['n'])
    if len(idx) < 3:
        return
    K = 8
    for method in ('1site', '2site'):
        common = dict(method=method, opts_svd={'tol': 1e-14})
        psi = start_state(loc, N, n, max(4, Dmax), False, acc.seed, 'stop')
        if psi is None:
            return
        st, seq = TC.call(lambda: [(o.sweeps, o.denergy, o.max_dSchmidt) for o in
                                   mps.dmrg_(psi, H, max_sweeps=K, iterator=True, energy_tol=1e-300, Schmidt_tol=1e-300, **common)])
        if st == 'ok' and 0 < len(seq) < K and seq[-1][1] == 0 and seq[-1][2] == 0:
            seq = seq + [(k, 0.0, 0.0) for k in range(len(seq) + 1, K + 1)]      # exact fixed point: nothing changes any more
        if st != 'ok' or len(seq) != K:
            acc.fail(dict(base, kind='stopping', method=method), f"reference iterator run: {st}: {seq if st != 'ok' else seq[-3:]}")
            continue
        for et, stl in STOP_TOLS:
            acc.check_time()
            run = dict(base, kind='stopping', method=method, energy_tol=et, Schmidt_tol=stl)
            psi = start_state(loc, N, n, max(4, Dmax), False, acc.seed, 'stop')
            kw = dict(common, max_sweeps=K)
            if et is not None:
                kw['energy_tol'] = et
            if stl is not None:
                kw['Schmidt_tol'] = stl
            st, out = TC.call(lambda: mps.dmrg_(psi, H, **kw))
            msg = None
            if st != 'ok':
                msg = f"dmrg_ with tolerances: {st}: {out}"
            else:
                met = [k for k, (sw, dE, dS) in enumerate(seq, start=1)
                       if (et is None or dE < et) and (stl is None or (dS is not None and dS < stl))]
                # sweeps whose measures lie within round-off of a tolerance are not decisive
                near = any((et is not None and abs(dE - et) < 1e-3 * et) or (stl is not None and dS is not None and abs(dS - stl) < 1e-3 * stl)
                           for (sw, dE, dS) in seq)
                expect = met[0] if met else K
                if out.sweeps < K and ((et is not None and not out.denergy < et) or (stl is not None and not out.max_dSchmidt < stl)):
                    msg = (f"dmrg_ stopped after {out.sweeps} < max_sweeps={K} sweeps with denergy={out.denergy}, max_dSchmidt={out.max_dSchmidt} "
                           f"although energy_tol={et}, Schmidt_tol={stl}")
                elif not near and out.sweeps != expect:
                    msg = (f"dmrg_(energy_tol={et}, Schmidt_tol={stl}) ran {out.sweeps} sweeps; the per-sweep measures "
                           f"{[(round(float(a), 14), None if b is None else round(float(b), 14)) for _, a, b in seq[:expect + 1]]} meet all tolerances first at sweep {expect}")
            acc.ev(repr(run), msg is None and st == 'ok' and out.sweeps < K, ('stopping', method, et is None, stl is None, msg is None))
            acc.cnt['stopping_runs'] += 1
            if st == 'ok' and out.sweeps < K:
                acc.cnt['stopping_runs_converged'] += 1
            if msg:
                acc.fail(run, msg)


def project_runs(base, loc, H, Hd, idx, w, U, acc, cplxH):
    N, n = base['N'], tuple(base['n'])
    if len(idx) < 3 or w[1] - w[0] < 1e-3 or w[2] - w[1] < 1e-3:
        return
    for cplx in ((True,) if cplxH else (False, True)):
        gs = start_state(loc, N, n, max(4, len(idx)), cplx, acc.seed, 'gs')
        if gs is None:
            continue
        mps.dmrg_(gs, H, method='2site', max_sweeps=12, energy_tol=1e-13, opts_svd={'tol': 1e-14})
        vg = MG.dense_vec(gs, loc)
        Eg = float(np.real(np.vdot(vg, Hd @ vg)))
        if abs(Eg - w[0]) > 1e-8:
            acc.cnt['projection_skipped_gs_not_converged'] += 1
            continue
        for method in ('2site', 'switch'):
            for proj in ('default', 'penalty', 'two'):
                for pre in (False, True):
                    acc.check_time()
                    run = dict(base, project=proj, method=method, cplx=cplx, pre=pre)
                    if proj == 'default':
                        P = [gs]
                    elif proj == 'penalty':
                        P = [(10 * (w[-1] - w[0]) + 5, gs)]
                    else:
                        # project out ground AND first excited state (built from the dense eigenvector)
                        v1 = np.zeros(Hd.shape[0], dtype=complex)
                        v1[idx] = U[:, 1]
                        st, e1 = TC.call(lambda: mps.mps_from_tensor(_to_tensor(v1, loc, N, n, cplx or cplxH)))
                        if st != 'ok':
                            continue
                        P = [gs, e1]
                    target = w[1] if proj != 'two' else w[2]
                    psi = start_state(loc, N, n, max(4, len(idx)), cplx, acc.seed, 'exc')
                    meth = yastn.Method('2site') if method == 'switch' else method
                    st, it = TC.call(lambda: mps.dmrg_(psi, H, project=P, method=meth, max_sweeps=16, iterator=True, opts_svd={'tol': 1e-14}, precompute=pre))
                    if st != 'ok':
                        acc.fail(run, f"dmrg_ with projection: {st}: {it}")
                        continue
                    Es = []
                    msg = None
                    for sweep in range(1, 17):
                        if method == 'switch' and sweep == 4:
                            meth.update_('1site')
                        st, out = TC.call(lambda: next(it))
                        if st != 'ok':
                            if 'StopIteration' not in str(out):
                                msg = f"sweep {sweep}: {st}: {out}"
                            break
                        Es.append(float(np.real(out.energy)))
                        if len(Es) >= 3 and abs(Es[-1] - Es[-2]) < 1e-12 and abs(Es[-2] - Es[-3]) < 1e-12 and (method != 'switch' or sweep >= 6):
                            break
                    converged = len(Es) >= 3 and abs(Es[-1] - Es[-2]) < 1e-12 and abs(Es[-2] - Es[-3]) < 1e-12
                    v = MG.dense_vec(psi, loc)
                    if not msg and converged:
                        acc.cnt['projection_converged'] += 1
                        ov = abs(np.vdot(vg, v))
                        Ed = float(np.real(np.vdot(v, Hd @ v)))
                        if ov > 1e-6:
                            msg = f"converged run with project=[gs...] has overlap {ov} with the projected-out ground state"
                        elif abs(Ed - target) > 1e-7 * max(1, abs(target)):
                            msg = f"converged run with projection ({proj}) has energy {Ed}; the targeted level of the sector is {target}"
                        elif abs(Es[-1] - Ed) > 1e-6 * max(1, abs(Ed)):     # (the reported value includes penalty * |overlap|^2)
                            msg = f"with projection the reported energy {Es[-1]} differs from <psi|H|psi> = {Ed}"
                    acc.ev(repr(run), msg is None and converged, ('project', msg is None, converged))
                    acc.cnt['projection_runs'] += 1
                    if msg:
                        acc.fail(run, msg)


def _to_tensor(vec, loc, N, n, cplx):
    """dense vector (sector n) -> symmetric tensor with N physical legs"""
    cfg = loc.config
    T = yastn.zeros(cfg, legs=[loc.space] * N, n=n if cfg.sym.NSYM else None, dtype='complex128')
    A = vec.reshape((loc.d,) * N)
    offs, lo = {}, 0
    for t, D in zip(loc.space.t, loc.space.D):
        offs[tuple(t)] = (lo, lo + D)
        lo += D
    nsym = cfg.sym.NSYM
    for tt in T.get_blocks_charge():
        ts = [tuple(tt[i * nsym:(i + 1) * nsym]) for i in range(N)]
        sl = tuple(slice(*offs[t]) for t in ts)
        T[tt] = A[sl]
    return T


def replay(case):
    acc = _Mini()
    acc.seed = case.get('seed', 0)
    g = {'fam': case['fam'], 'sym': case['sym'], 'N': case['N'], 'part': 0}
    run_group(g, acc)
    g['part'] = 1
    run_group(g, acc)
    keys = [k for k in case if k not in ('seed', 'sweep')]
    return [v['msg'] for v in acc.violations if all(v['case'].get(k) == case.get(k) for k in keys)][:3]


class _Mini:
    def __init__(self):
        self.violations, self.cnt = [], collections.Counter()
        self.evaluations = 0
        self.tier, self.seed = 'quick', 0

    def ev(self, *a, **k):
        self.evaluations += 1

    def fail(self, case, msg, key=None):
        self.violations.append({'case': case, 'msg': msg})

    def sample(self, c):
        pass

    def check_time(self):
        pass


def finalize(summary, tier):
    errs = []
    c = summary['cnt']
    if c.get('sweeps_observed', 0) < 3000 or c.get('converged_runs', 0) < 100 or c.get('projection_converged', 0) < 30:
        errs.append(f"vacuity: {dict(c)}")
    return errs
