"""
C11 - PEPS gates and their application act exactly as the dense operators.
(a) gate matrices: every predefined gate constructor x parameter grid x steps vs scipy.linalg.expm of the Jordan-Wigner
    Hamiltonian; (b) explicit-state BFS over gate sequences applied with Peps.apply_gate_ on finite lattices (obc and
    cylinders, bonds in both orientations, local gates, 3/4-site paths with MPO / tensor-list / fill-eye gates, pure
    states and purifications), every reached state compared through to_tensor() with the dense reference chain;
(c) DoublePepsTensor.tensordot vs tensordot of fuse_layers() for all allowed transposes, corner pairs, argument
    orders, operators and charge swaps on reached site tensors; (d) fpeps.add vs the dense sum.
"""
import collections
import hashlib
import itertools

import numpy as np
import yastn
import yastn.tn.fpeps as fpeps
from yastn import YastnError

from vmc.engine.runner import h64
from vmc.models import jw as JW
from vmc.gen import pepsgen as PG
from . import _tcommon as TC

PROPERTY_ID = 'C11'
LEVEL = 'model_checking'
RULE = ("(a) one evaluation = one gate constructor call (kind, parameters, step) compared with expm; (b) explicit-state BFS: "
        "state = finite PEPS (hash of all site tensors rounded to 1e-9), transition = one apply_gate_ call checked against "
        "the dense Jordan-Wigner reference chain; (c) one evaluation = one (site tensor pair, transpose, corner pair, "
        "argument order, operator, swaps) contraction; (d) one evaluation = one sum; non-trivial = the gate/operator "
        "changes the state (dense change > 1e-6) / the tensor has more than one block")
ASSUMPTIONS = ["Heisenberg gate: H = J S.S with S+- = Sx +- iSy (the code and the suite; the docstring's factor 2 refers to S+-/2)",
               "Coulomb gate: up to the constant U/4 as documented",
               "MPO gate sum_k A_k(0)B_k(1)C_k(2) acts as sum_k A_k(s0)B_k(s1)C_k(s2) (ordered JW products on the lattice)",
               "tolerance 1e-11 relative to max(1, |state|_max)"]
BUDGET = {'quick': 200, 'thorough': 1500}
TOL = 1e-11

LATTICES_QUICK = [((1, 2), 'obc'), ((2, 1), 'obc'), ((1, 3), 'obc'), ((3, 1), 'obc'), ((2, 2), 'obc'), ((2, 3), 'obc'), ((3, 2), 'obc'),
                  ((2, 2), 'cylinder'), ((3, 1), 'cylinder'), ((3, 2), 'cylinder'), ((2, 3), 'cylinder')]
LATTICES_MORE = [((1, 4), 'obc'), ((4, 1), 'obc'), ((1, 5), 'obc'), ((5, 1), 'obc'), ((1, 6), 'obc'), ((6, 1), 'obc'), ((1, 1), 'obc'),
                 ((4, 1), 'cylinder'), ((2, 1), 'cylinder'), ((1, 3), 'cylinder')]


def max_sites(fam, purif):
    return {'spinless': 6, 'spin12': 6, 'tJ': 4, 'spinful': 4}[fam] - (0 if not purif else {'spinless': 0, 'spin12': 0, 'tJ': 1, 'spinful': 1}[fam])


def groups(tier, seed):
    gs = []
    for fam, sym in PG.PEPS_FAMILIES:
        gs.append({'kind': 'matrices', 'fam': fam, 'sym': sym, 'level': 1})
    lats = LATTICES_QUICK + (LATTICES_MORE if tier != 'quick' else [])
    quick = tier == 'quick'
    heavy = lambda fam: fam in ('spinful', 'tJ')
    for fam, sym in PG.PEPS_FAMILIES:
        loc = PG.PLocal(fam, sym)
        for dims, bnd in lats:
            N = dims[0] * dims[1]
            g = PG.lattice(dims, bnd)
            inits = PG.initial_states(loc, g, seed, full=(not quick and N <= 4))
            if quick and N >= 6:
                inits = [i for i in inits if i[0] != 'purif:W'][1:]
            first = {'pure': True, 'purif': True}
            for label, spec in inits:
                purif = spec[0] == 'purif'
                if N > max_sites(fam, purif):
                    continue
                if quick and heavy(fam) and sym not in ('U1xU1', 'U1xU1xZ2') and N > 3:
                    continue
                deep = first[spec[0]]
                first[spec[0]] = False
                stride = 1
                if quick:
                    depth = 2 if deep and N <= 4 else 1
                    if heavy(fam) and (N > 3 or sym not in ('U1xU1', 'U1xU1xZ2')):
                        depth = 1
                    if depth == 2:
                        stride = {1: 1, 2: 1, 3: 2 if heavy(fam) else 1, 4: 3}[N]
                    if N == 6 and fam == 'spinless' and sym == 'U1' and deep and not purif and (tuple(dims), bnd) in (((2, 3), 'obc'), ((3, 2), 'cylinder')):
                        depth, stride = 2, 12
                else:
                    depth = 3 if (deep and N <= 3 and not heavy(fam)) else 2
                    stride = 1 if N <= 4 else 4
                    if heavy(fam) and N >= 4:
                        stride = 6
                gs.append({'kind': 'apply', 'fam': fam, 'sym': sym, 'dims': list(dims), 'bnd': bnd,
                           'init': [spec[0], list(spec[1]) if spec[0] == 'pure' else spec[1]],
                           'depth': depth, 'stride': stride, 'level': depth})
    for fam, sym in PG.PEPS_FAMILIES:
        for spec in ('pure', 'purif'):
            gs.append({'kind': 'double', 'fam': fam, 'sym': sym, 'spec': spec, 'level': 1})
        gs.append({'kind': 'add', 'fam': fam, 'sym': sym, 'level': 1})
    cost = lambda g: -(g['dims'][0] * g['dims'][1]) ** 2 * (8 if g['depth'] > 1 else 1) * (4 if g['fam'] in ('spinful', 'tJ') else 1) if g['kind'] == 'apply' else (-100 if g['kind'] == 'double' else 0)
    gs.sort(key=cost)
    return gs


def run_group(g, acc):
    {'matrices': run_matrices, 'apply': run_apply, 'double': run_double, 'add': run_add}[g['kind']](g, acc)


# ---------------------------------------------------------------------------------------------
# (a) gate matrices

def param_grid(loc, kind):
    P = PG.PARAMS
    f = loc.fam
    if kind == 'hop':
        sp = [['c', 'cp']] if f == 'spinless' else [['cu', 'cpu'], ['cd', 'cpd']]
        return [{'t': t, 'ops': o} for t in P for o in sp]
    if kind == 'ising':
        return [{'J': J} for J in P]
    if kind == 'heis':
        return [{'J': J} for J in P]
    if kind == 'tJ':
        out = []
        for J, tu, td in itertools.product(P, repeat=3):
            for mus in ((0, 0, 0, 0), (0.5, -1.3, 0, 0.5), (-1.3, 0.5, 0.5, 0)):
                out.append({'J': J, 'tu': tu, 'td': td, 'muu0': mus[0], 'muu1': mus[1], 'mud0': mus[2], 'mud1': mus[3]})
        return out
    if kind == 'exp2':
        return [{'t': t, 'V': V, 'D': D} for t in P for V in P for D in ((0, 0.6) if (f == 'spinless' and loc.sym == 'Z2') else (0,))]
    if kind == 'coulomb':
        return [{'muu': a, 'mud': b, 'U': U} for a in P for b in P for U in P]
    if kind == 'occ':
        names = {'spinless': ['n'], 'spinful': ['nu', 'nd'], 'tJ': ['nu', 'nd']}[f]
        return [{'mu': mu, 'n': n} for mu in P for n in names]
    if kind == 'field':
        return [{'h': h} for h in P]
    if kind == 'exp1':
        return [{'a': a, 'b': b} for a in P for b in P]
    raise KeyError(kind)


def gate_matrix_case(loc, case):
    """returns (status, message, nontrivial)"""
    desc = {'kind': case['gate'], 'par': case['par'], 'step': case['step'], 'sites': None if case['n'] == 2 else [None]}
    st, gate = TC.call(lambda: PG.build_gate(loc, dict(desc, sites=None if case['n'] == 2 else [(0, 0)])))
    if st != 'ok':
        return 'viol', f"gate constructor {case['gate']}({case['par']}, step={case['step']}) failed: {st}: {gate}", False
    spaces = [loc.space] * case['n']
    ref = PG.dense_gate(loc, desc, spaces, list(range(case['n'])))
    G = gate.G
    if case['n'] == 2:
        if len(G) != 2 or G[0].ndim != 3 or G[1].ndim != 3:
            return 'viol', f"gate {case['gate']}: expected two rank-3 tensors, got {[x.ndim for x in G]}", False
        T = yastn.tensordot(G[0], G[1], axes=(2, 2))
    else:
        if len(G) != 1 or G[0].ndim != 2:
            return 'viol', f"gate {case['gate']}: expected one rank-2 tensor, got {[x.ndim for x in G]}", False
        T = G[0]
    A = JW.mpo_like_to_matrix(T, spaces)
    err = np.abs(A - ref).max()
    ntv = np.abs(ref - np.eye(ref.shape[0])).max() > 1e-6
    if not err <= TOL * max(1, np.abs(ref).max()):
        return 'viol', (f"gate {case['gate']}({case['par']}, step={case['step']}) [{loc.fam} {loc.sym}] differs from expm(-step H): "
                        f"max diff {err:.3e} (|ref|max {np.abs(ref).max():.3e})"), ntv
    return 'ok', None, ntv


def run_matrices(g, acc):
    loc = PG.PLocal(g['fam'], g['sym'])
    nn, lc = PG.gate_kinds(loc)
    kinds = [(k, 2) for k in dict.fromkeys(k for k, _ in nn)] + [(k, 1) for k in dict.fromkeys(k for k, _ in lc)]
    for kind, n in kinds:
        for par in param_grid(loc, kind):
            for step in PG.STEPS:
                acc.check_time()
                case = {'kind': 'matrices', 'fam': g['fam'], 'sym': g['sym'], 'gate': kind, 'par': par, 'step': PG.jstep(step), 'n': n}
                st, msg, ntv = gate_matrix_case(loc, case)
                acc.ev(key=('m', g['fam'], g['sym'], kind, repr(par), repr(step)), nontrivial=ntv, outcome=('m', st, ntv))
                acc.cnt['gate_matrices'] += 1
                acc.sample(case)
                if st != 'ok':
                    acc.fail(case, msg)


# ---------------------------------------------------------------------------------------------
# (b) application

def alphabet(loc, geo, depth_index, tier):
    """gate descriptors enabled at BFS depth `depth_index` (0 = first gate: full alphabet; later: reduced)"""
    nn, lc = PG.gate_kinds(loc)
    sites = [tuple(s) for s in geo.sites()]
    bonds = PG.bonds_both(geo)
    p3 = PG.paths(geo, 3)
    out = []
    full = depth_index == 0
    steps = [0.3j, 0.2 + 0.1j] if full else [-0.2 + 0.25j]
    for (kind, par) in (nn if full else nn[:1] + nn[-1:]):
        for b in bonds:
            for st in steps:
                out.append({'kind': kind, 'par': par, 'step': PG.jstep(st), 'sites': [list(b[0]), list(b[1])]})
    for (kind, par) in (lc if full else lc[:1]):
        for s in sites:
            out.append({'kind': kind, 'par': par, 'step': PG.jstep(steps[0]), 'sites': [list(s)]})
    for p in p3:
        ps = [list(s) for s in p]
        out.append({'kind': 'mpo', 'par': {'a': 1.0}, 'step': None, 'sites': ps})
        if full:
            out.append({'kind': 'tensors', 'par': {'a': -0.6}, 'step': None, 'sites': ps})
        kind, par = nn[0]
        out.append({'kind': kind, 'par': par, 'step': PG.jstep(0.4j), 'sites': ps})   # two-site gate along a 3-site path (fill_eye)
    if full:
        for b in bonds:
            out.append({'kind': 'mpo', 'par': {'a': 0.8}, 'step': None, 'sites': [list(b[0]), list(b[1])]})
        p4 = PG.paths(geo, 4)
        if tier == 'quick':
            p4 = p4[::3]
        for p in p4:
            ps = [list(s) for s in p]
            out.append({'kind': 'mpo', 'par': {'a': 1.0}, 'step': None, 'sites': ps})
            kind, par = nn[-1]
            out.append({'kind': kind, 'par': par, 'step': PG.jstep(0.4j), 'sites': ps})
    return out


def state_key(psi):
    h = hashlib.blake2b(digest_size=12)
    for s in psi.sites():
        A = psi[s]
        h.update(repr((A.struct, A.slices, A.trans)).encode())
        h.update(np.round(np.asarray(A._data), 9).tobytes())
    return h.digest()


def max_bond(psi):
    return max(max(psi[s].get_shape()[:4]) for s in psi.sites())


class Ctx:
    def __init__(self, g):
        self.loc = PG.PLocal(g['fam'], g['sym'])
        self.geo = PG.lattice(g['dims'], g['bnd'])
        self.idx = PG.site_index(self.geo)
        self.N = len(self.idx)
        self.spaces = [self.loc.space] * self.N
        spec = (g['init'][0], tuple(g['init'][1]) if g['init'][0] == 'pure' else g['init'][1])
        self.psi0 = PG.make_state(self.loc, self.geo, spec)
        self.D = PG.Dense(self.loc, self.psi0)
        self.v0 = self.D(self.psi0)
        self._m = {}

    def dense_gate(self, desc):
        k = repr(desc)
        if k not in self._m:
            ids = [self.idx[tuple(s)] for s in desc['sites']]
            self._m[k] = PG.dense_gate(self.loc, desc, self.spaces, ids)
        return self._m[k]

    def step(self, psi, desc):
        """apply the gate of desc to a shallow copy; returns (status, new psi | message)"""
        phi = psi.shallow_copy()
        st, r = TC.call(lambda: phi.apply_gate_(PG.build_gate(self.loc, desc)))
        if st != 'ok':
            return st, r
        return 'ok', phi


def compare(ctx, phi, ref):
    st, w = TC.call(lambda: ctx.D(phi))
    if st != 'ok':
        return f"to_tensor()/dense read-out failed after the gate: {st}: {w}"
    if w.shape != ref.shape:
        return f"dense shape {w.shape} != reference {ref.shape}"
    err = np.abs(w - ref).max()
    if not err <= TOL * max(1, np.abs(ref).max()):
        return f"to_tensor() differs from the dense reference: max diff {err:.3e} (|ref|max {np.abs(ref).max():.3e})"
    return None


def run_apply(g, acc):
    ctx = Ctx(g)
    base = {k: g[k] for k in ('kind', 'fam', 'sym', 'dims', 'bnd', 'init')}
    m = compare(ctx, ctx.psi0, ctx.v0)
    frontier = [(ctx.psi0, ctx.v0, [])]
    seen = {state_key(ctx.psi0)}
    acc.states += 1
    Dcap = 64 if acc.tier == 'quick' else 256
    for depth in range(g['depth']):
        alpha = alphabet(ctx.loc, ctx.geo, depth, acc.tier)
        nxt = []
        if depth > 0 and g.get('stride', 1) > 1:
            frontier = frontier[(acc.seed % g['stride'])::g['stride']]
        for psi, v, hist in frontier:
            for desc in alpha:
                acc.check_time()
                case = dict(base, hist=hist + [desc])
                st, phi = ctx.step(psi, desc)
                acc.transitions += 1
                if st != 'ok':
                    acc.ev(key=('a', repr(case)), nontrivial=True, outcome=('a', 'error'))
                    acc.fail(case, f"apply_gate_({desc}) after {len(hist)} gates failed: {st}: {phi}")
                    continue
                ref = ctx.dense_gate(desc) @ v
                m = compare(ctx, phi, ref)
                ntv = np.abs(ref - v).max() > 1e-6
                dirn = _dirn(ctx.geo, desc['sites'])
                acc.ev(key=('a', g['fam'], g['sym'], tuple(g['dims']), g['bnd'], repr(g['init']), repr(hist), repr(desc)), nontrivial=ntv,
                       outcome=('a', desc['kind'], dirn, ntv, m is None))
                acc.cnt['gates_applied'] += 1
                acc.cnt['dirn_' + dirn] += 1
                if m is not None:
                    acc.fail(case, f"after gates {[(d['kind'], d['sites']) for d in hist + [desc]]} on {g['dims']} {g['bnd']} "
                             f"[{g['fam']} {g['sym']} {g['init']}]: {m}")
                    continue
                k = state_key(phi)
                if k in seen:
                    acc.cnt['merged'] += 1
                    continue
                seen.add(k)
                acc.states += 1
                if depth + 1 < g['depth'] and max_bond(phi) <= Dcap:
                    nxt.append((phi, ref, hist + [desc]))
                elif depth + 1 < g['depth']:
                    acc.cnt['bond_guard'] += 1
        frontier = nxt
    acc.sample(dict(base, depth=g['depth']))


def _dirn(geo, sites):
    if len(sites) == 1:
        return 'local'
    out = ''
    for a, b in zip(sites[:-1], sites[1:]):
        d = geo.nn_bond_dirn(tuple(a), tuple(b))
        if not geo.f_ordered(tuple(a), tuple(b)) ^ (d in ('rl', 'bt')):
            d = d.upper()   # crosses the periodic boundary
        out += d
    return out


def apply_case(case):
    g = dict(case, depth=len(case['hist']))
    ctx = Ctx(g)
    psi, v = ctx.psi0, ctx.v0
    for i, desc in enumerate(case['hist']):
        st, phi = ctx.step(psi, desc)
        if st != 'ok':
            return f"apply_gate_({desc}) after {i} gates failed: {st}: {phi}"
        v = ctx.dense_gate(desc) @ v
        m = compare(ctx, phi, v)
        if m is not None:
            return f"after gate {i} ({desc['kind']} on {desc['sites']}): {m}"
        psi = phi
    return None


# ---------------------------------------------------------------------------------------------
# (c) DoublePepsTensor

TRANSPOSES = [(0, 1, 2, 3), (1, 2, 3, 0), (2, 3, 0, 1), (3, 0, 1, 2), (0, 3, 2, 1), (1, 0, 3, 2), (2, 1, 0, 3), (3, 2, 1, 0)]


def site_tensor_pool(loc, seed, specs=('pure', 'purif')):
    """site tensors with non-trivial virtual legs: centre of a 3x3 obc lattice and corner/edge sites after gates on all
    adjacent bonds, pure and purified; returns list of (label, ket tensor, other ket of same legs)"""
    pool = []
    geo = PG.lattice((3, 3), 'obc')
    nn, lc = PG.gate_kinds(loc)
    nn = [x for x in nn if x[0] in ('hop', 'heis', 'ising')]     # low-rank gates keep the bond dimensions small
    for spec in (('pure', tuple((i + seed) % len(loc.basis_vectors()) for i in range(9))), ('purif', 'I')):
        if spec[0] not in specs:
            continue
        psis = []
        for variant in range(2):
            psi = PG.make_state(loc, geo, spec)
            k = 0
            for b in geo.bonds():
                kind, par = nn[(k + variant) % len(nn)]
                k += 1
                if (1, 1) not in (tuple(b[0]), tuple(b[1])) and k % 2:
                    continue
                desc = {'kind': kind, 'par': par, 'step': PG.jstep(0.3j + 0.1 * k + 0.05 * variant), 'sites': [list(b[0]), list(b[1])]}
                psi.apply_gate_(PG.build_gate(loc, desc))
            psis.append(psi)
        for s in ((1, 1), (0, 0), (2, 1)):
            pool.append((f"{spec[0]}@{s}", psis[0][s], psis[1][s]))
    return pool


def boundary_vector(dpt, a0, a1, pos, cfgseed, xcharges=()):
    """random tensor b with legs (x, L0, L1, y) arranged by `pos`, L = conj of the double-layer legs a0, a1"""
    cfg = dpt.config
    l0, l1 = dpt.get_legs(a0).conj(), dpt.get_legs(a1).conj()
    if cfg.sym.NSYM:
        ch = sorted(set(xcharges))
        x = yastn.Leg(cfg, s=1, t=ch, D=[2 if not any(t) else 1 for t in ch])
        y = yastn.Leg(cfg, s=-1, t=[cfg.sym.zero()], D=[2])
    else:
        x = yastn.Leg(cfg, s=1, D=[2])
        y = yastn.Leg(cfg, s=-1, D=[2])
    legs = {'x': x, 'y': y, '0': l0, '1': l1}
    order = pos
    b = yastn.rand(cfg, legs=[legs[c] for c in order], dtype='complex128')
    rng = np.random.default_rng(h64(('c11b', cfgseed)) % (2 ** 32))
    b._data[:] = rng.integers(-3, 4, size=b._data.shape) + 1j * rng.integers(-3, 4, size=b._data.shape)
    return b, (order.index('0'), order.index('1'))


def run_double(g, acc):
    loc = PG.PLocal(g['fam'], g['sym'])
    pool = site_tensor_pool(loc, acc.seed, (g['spec'],))
    cfg = loc.config
    opnames = [None] + [n for n in loc.O if n != 'I'][:(2 if acc.tier == 'quick' else 4)]
    zero = cfg.sym.zero() if cfg.sym.NSYM else None
    swapsets = [None]
    if cfg.sym.NSYM:
        one = tuple(1 for _ in zero)
        swapsets += [{'k4': one, 'b0': one, 'k1': one}, {'b3': one, 'k2': one, 'b4': one}]
    pos_list = ['x01y', '10xy', 'x1y0', '0y1']
    quick = acc.tier == 'quick'
    combos = [(o, w) for o in opnames for w in swapsets]
    if quick:
        combos = [(None, None), (opnames[1], None), (None, swapsets[-1]), (opnames[-1], swapsets[1 % len(swapsets)])]
    for label, A, B in pool:
        for bra_is_ket in (True, False):
            bra = A if bra_is_ket else B
            for tr in TRANSPOSES:
                for opn, sw in combos:
                    if True:
                        for (a0, a1) in ((0, 1), (1, 2), (2, 3), (3, 0), (1, 0), (3, 2)):
                            for pos in (pos_list if (tr in TRANSPOSES[:2] and (quick is False or a0 in (0, 2))) else pos_list[(a0 + a1) % 4:][:1]):
                                for rev in (False, True):
                                    acc.check_time()
                                    case = {'kind': 'double', 'fam': g['fam'], 'sym': g['sym'], 'site': label, 'bra_is_ket': bra_is_ket, 'trans': list(tr),
                                            'op': opn, 'swaps': sw, 'axes': [a0, a1], 'pos': pos, 'reverse': rev}
                                    st, msg, ntv = double_case(loc, A, bra, case, acc.seed)
                                    acc.ev(key=('d', repr(case)), nontrivial=ntv, outcome=('d', st, tr, (a0, a1), rev, opn is None, sw is None))
                                    acc.cnt['double_contractions'] += 1
                                    if st == 'viol':
                                        acc.fail(dict(case, seed=acc.seed), msg)
    acc.sample({'kind': 'double', 'fam': g['fam'], 'sym': g['sym'], 'spec': g['spec'], 'pool': [p[0] for p in pool]})
    run_double_stateful(g, loc, pool, acc)


# stateful use of ONE DoublePepsTensor object: explicit-state BFS over its mutating API; after every step the lazy
# tensordot and the fused form must agree, and both must equal those of a freshly built object with the same content

def dpt_actions(loc):
    cfg = loc.config
    names = [n for n in loc.O if n != 'I'][:2]
    acts = [('set_op:' + n, lambda d, n=n: d.set_operator_(loc.O[n])) for n in names]
    acts += [('mul_op:' + names[0], lambda d: d.set_operator_(loc.O[names[0]], reset=False)),
             ('del_op', lambda d: d.del_operator_()), ('fuse_layers', lambda d: d.fuse_layers())]
    if cfg.sym.NSYM:
        one = tuple(1 for _ in cfg.sym.zero())
        acts += [('add_swaps:k4b0', lambda d: d.add_charge_swaps_(one, ['k4', 'b0'])), ('add_swaps:k1', lambda d: d.add_charge_swaps_(one, 'k1')),
                 ('del_swaps', lambda d: d.del_charge_swaps_())]
    return acts


def run_double_stateful(g, loc, pool, acc):
    label, A, B = pool[0]
    acts = dpt_actions(loc)
    amap = dict(acts)
    depth = 3
    xch = None
    heavy = g['fam'] in ('spinful', 'tJ')
    if heavy and g['spec'] != 'pure' and acc.tier == 'quick':
        return
    for hist in itertools.chain.from_iterable(itertools.product([a for a, _ in acts], repeat=d) for d in range(1, depth + 1)):
        if len(hist) == 3 and (heavy or acc.tier == 'quick') and hist[1] != 'fuse_layers' and not (not heavy and hist[0].startswith(('set_op', 'add_swaps')) and hist[2].startswith('del')):
            continue     # depth 3 in the quick tier: an observation (fuse_layers) in the middle, or set ... del patterns
        acc.check_time()
        case = {'kind': 'double_seq', 'fam': g['fam'], 'sym': g['sym'], 'spec': g['spec'], 'site': label, 'hist': list(hist), 'seed': acc.seed}
        m = double_seq_case(loc, A, B, hist, amap, acc.seed)
        acc.states += 1
        acc.transitions += 1
        acc.ev(key=('ds', repr(case)), nontrivial=True, outcome=('ds', hist[-1], m is None))
        acc.cnt['double_sequences'] += 1
        if m:
            acc.fail(case, m)


def double_seq_case(loc, A, B, hist, amap, seed):
    d = fpeps.DoublePepsTensor(bra=B, ket=A, trans=(1, 2, 3, 0))
    for a in hist:
        st, r = TC.call(lambda: amap[a](d))
        if st != 'ok':
            return None      # an action the object refuses ends the sequence (not a property of this check)
    fresh = fpeps.DoublePepsTensor(bra=B, ket=A, trans=(1, 2, 3, 0), op=d.op, swaps=dict(d.swaps))
    sym = loc.config.sym
    xch = [sym.zero()] if sym.NSYM else []
    for o in loc.O.values():
        if sym.NSYM:
            xch += [tuple(o.n), tuple(sym.add_charges(o.n, signatures=(-1,)))]
    b, (i0, i1) = boundary_vector(d, 0, 1, 'x01y', (seed, 'seq'), xch)
    st1, R1 = TC.call(lambda: yastn.tensordot(d, b, axes=((0, 1), (i0, i1))))
    st2, R2 = TC.call(lambda: yastn.tensordot(d.fuse_layers(), b, axes=((0, 1), (i0, i1))))
    st3, R3 = TC.call(lambda: yastn.tensordot(fresh.fuse_layers(), b, axes=((0, 1), (i0, i1))))
    if 'ok' not in (st1, st2, st3) and st1 == st2 == st3:
        return None
    if not (st1 == st2 == st3 == 'ok'):
        return f"after {list(hist)}: lazy {st1}, fused {st2}, freshly built {st3}: {[r for s_, r in ((st1, R1), (st2, R2), (st3, R3)) if s_ != 'ok'][:1]}"
    for what, X, Y in (('lazy tensordot vs fuse_layers()', R1, R2), ('fuse_layers() vs a freshly built object with the same operator and swaps', R2, R3)):
        try:
            legs = {i: yastn.legs_union(x, y) for i, (x, y) in enumerate(zip(X.get_legs(), Y.get_legs()))}
        except YastnError as e:
            return f"after {list(hist)}: {what}: result legs are inconsistent: {e}"
        x, y = X.to_numpy(legs=legs), Y.to_numpy(legs=legs)
        if x.shape != y.shape or (x.size and np.abs(x - y).max() > 1e-12 * max(1, np.abs(y).max())):
            return f"after {list(hist)} on one DoublePepsTensor object: {what} differ (max diff {np.abs(x - y).max() if x.shape == y.shape else 'shape'})"
    return None


def double_case(loc, ket, bra, case, seed):
    tr, opn, sw = tuple(case['trans']), case['op'], case['swaps']
    dpt = fpeps.DoublePepsTensor(bra=bra, ket=ket, trans=tr)
    if opn is not None:
        dpt.set_operator_(loc.O[opn])
    if sw:
        for ax, ch in sw.items():
            dpt.add_charge_swaps_(tuple(ch), ax)
    a0, a1 = case['axes']
    sym = loc.config.sym
    xch = [sym.zero()] if sym.NSYM else []
    for o in loc.O.values():
        if sym.NSYM:
            xch += [tuple(o.n), tuple(sym.add_charges(o.n, signatures=(-1,)))]
    b, (i0, i1) = boundary_vector(dpt, a0, a1, case['pos'], (seed, case['site'], case['pos']), xch)
    st2, F = TC.call(lambda: dpt.fuse_layers())
    if st2 != 'ok':
        return 'viol', f"fuse_layers failed: {st2}: {F}", False
    if case['reverse']:
        st1, R1 = TC.call(lambda: yastn.tensordot(b, dpt, axes=((i0, i1), (a0, a1))))
        st3, R2 = TC.call(lambda: yastn.tensordot(b, F, axes=((i0, i1), (a0, a1))))
    else:
        st1, R1 = TC.call(lambda: yastn.tensordot(dpt, b, axes=((a0, a1), (i0, i1))))
        st3, R2 = TC.call(lambda: yastn.tensordot(F, b, axes=((a0, a1), (i0, i1))))
    ntv = len(ket.struct.t) > 1
    if st1 != 'ok' or st3 != 'ok':
        if st1 == st3 == 'yerr':
            return 'rejected', None, ntv
        return 'viol', f"lazy tensordot: {st1} {R1 if st1 != 'ok' else ''}; fused tensordot: {st3} {R2 if st3 != 'ok' else ''}", ntv
    if R1.ndim != R2.ndim or R1.get_signature() != R2.get_signature():
        return 'viol', f"results differ in rank/signature: {R1.ndim} {R1.get_signature()} vs {R2.ndim} {R2.get_signature()}", ntv
    L1, L2 = R1.get_legs(), R2.get_legs()
    try:
        un = [yastn.legs_union(x, y) for x, y in zip(L1, L2)]
    except YastnError as e:
        return 'viol', f"result legs are inconsistent between the two routes: {e}", ntv
    legs = dict(enumerate(un))
    X1, X2 = R1.to_numpy(legs=legs), R2.to_numpy(legs=legs)
    if X2.size == 0 or not np.abs(X2).max() > 0:
        ntv = False
    d = np.abs(X1 - X2).max() if X2.size else 0
    nrm = max(1, np.abs(X2).max()) if X2.size else 1
    if not d <= 1e-12 * nrm:
        return 'viol', (f"DoublePepsTensor.tensordot differs from tensordot of fuse_layers(): max diff {d:.3e} "
                        f"[{case['site']} trans={tr} axes={(a0, a1)} pos={case['pos']} reverse={case['reverse']} op={opn} swaps={sw}]"), ntv
    return 'ok', None, ntv


# ---------------------------------------------------------------------------------------------
# (d) add

def run_add(g, acc):
    loc = PG.PLocal(g['fam'], g['sym'])
    nn, lc = PG.gate_kinds(loc)
    for dims, bnd in (((1, 2), 'obc'), ((2, 1), 'obc'), ((2, 2), 'obc'), ((1, 3), 'obc'), ((3, 1), 'cylinder'), ((2, 2), 'cylinder')):
        geo = PG.lattice(dims, bnd)
        N = dims[0] * dims[1]
        if N > max_sites(g['fam'], True):
            continue
        bonds = PG.bonds_both(geo)
        for label, spec in PG.initial_states(loc, geo, acc.seed):
            acc.check_time()
            # three states reached from the same product state by different gate sequences
            case = {'kind': 'add', 'fam': g['fam'], 'sym': g['sym'], 'dims': list(dims), 'bnd': bnd, 'init': [spec[0], list(spec[1]) if spec[0] == 'pure' else spec[1]]}
            for amps in (None, [1, 1], [3, 4], [0.5, -2j, 1.5], [1, 0, 2]):
                c = dict(case, amps=None if amps is None else [PG.jstep(a) for a in amps])
                m, ntv = add_case(loc, c)
                acc.ev(key=('+', repr(c)), nontrivial=ntv, outcome=('+', m is None, ntv, len(amps or [0, 0])))
                acc.cnt['sums'] += 1
                if m:
                    acc.fail(c, m)
        # different product states of the same total charge (different auxiliary charges per site)
        bv = loc.basis_vectors()
        if len(bv) >= 2 and N >= 2:
            p0 = tuple(i % 2 for i in range(N))
            p1 = tuple((i + 1) % 2 for i in range(N))
            if N % 2 == 0:
                c = dict(kind='add2', fam=g['fam'], sym=g['sym'], dims=list(dims), bnd=bnd, pats=[list(p0), list(p1)], amps=[PG.jstep(3), PG.jstep(4j)])
                m, ntv = add2_case(loc, c)
                acc.ev(key=('+2', repr(c)), nontrivial=ntv, outcome=('+2', m is None))
                acc.cnt['sums'] += 1
                if m:
                    acc.fail(c, m)
    # rejections
    geo = PG.lattice((1, 2), 'obc')
    geo2 = PG.lattice((2, 1), 'obc')
    psi = PG.make_state(loc, geo, ('purif', 'I'))
    phi = PG.make_state(loc, geo2, ('purif', 'I'))
    for what, f in (('different geometry', lambda: fpeps.add(psi, phi)), ('non-Peps', lambda: fpeps.add(psi, None)),
                    ('amplitude count', lambda: fpeps.add(psi, psi, amplitudes=(1, 2, 3)))):
        st, r = TC.call(f)
        acc.ev(key=('+rej', g['fam'], g['sym'], what), nontrivial=True, outcome=('+rej', st))
        acc.cnt['add_rejections'] += 1
        if st != 'yerr':
            acc.fail({'kind': 'add_reject', 'fam': g['fam'], 'sym': g['sym'], 'what': what}, f"fpeps.add with {what}: expected YastnError, got {st}: {r if st != 'ok' else ''}")


def _reached(loc, geo, spec, n):
    nn, lc = PG.gate_kinds(loc)
    bonds = PG.bonds_both(geo)
    sites = [tuple(s) for s in geo.sites()]
    out = []
    for j in range(n):
        psi = PG.make_state(loc, geo, spec)
        for k in range(j + 1):
            b = bonds[(j + 2 * k) % len(bonds)]
            kind, par = nn[(j + k) % len(nn)]
            psi.apply_gate_(PG.build_gate(loc, {'kind': kind, 'par': par, 'step': PG.jstep(0.3j + 0.1 * (j + 1)), 'sites': [list(b[0]), list(b[1])]}))
        kind, par = lc[j % len(lc)]
        psi.apply_gate_(PG.build_gate(loc, {'kind': kind, 'par': par, 'step': PG.jstep(0.2 + 0.1j), 'sites': [list(sites[j % len(sites)])]}))
        out.append(psi)
    return out


def add_case(loc, c):
    geo = PG.lattice(c['dims'], c['bnd'])
    spec = (c['init'][0], tuple(c['init'][1]) if c['init'][0] == 'pure' else c['init'][1])
    amps = None if c['amps'] is None else [PG._c(a) for a in c['amps']]
    n = 2 if amps is None else len(amps)
    states = _reached(loc, geo, spec, n)
    D = PG.Dense(loc, PG.make_state(loc, geo, spec))
    vs = [D(s) for s in states]
    st, tot = TC.call(lambda: fpeps.add(*states, amplitudes=amps) if amps is not None else (states[0] + states[1]))
    if st != 'ok':
        return f"fpeps.add failed: {st}: {tot}", True
    ref = sum((1 if amps is None else a) * v for a, v in zip(amps or [1, 1], vs))
    st, w = TC.call(lambda: D(tot))
    if st != 'ok':
        return f"to_tensor of the sum failed: {st}: {w}", True
    err = np.abs(w - ref).max()
    if not err <= TOL * max(1, np.abs(ref).max()):
        return f"sum of PEPS differs from the sum of dense states: max diff {err:.3e} (amplitudes {amps})", True
    return None, True


def add2_case(loc, c):
    geo = PG.lattice(c['dims'], c['bnd'])
    amps = [PG._c(a) for a in c['amps']]
    states = [PG.make_state(loc, geo, ('pure', tuple(p))) for p in c['pats']]
    nn, lc = PG.gate_kinds(loc)
    bonds = PG.bonds_both(geo)
    for j, psi in enumerate(states):
        b = bonds[j % len(bonds)]
        kind, par = nn[0]
        psi.apply_gate_(PG.build_gate(loc, {'kind': kind, 'par': par, 'step': PG.jstep(0.3j + 0.1 * j), 'sites': [list(b[0]), list(b[1])]}))
    Ts = [s.to_tensor() for s in states]
    N = len(geo.sites())
    anc = [yastn.legs_union(*[T.get_legs(2 * i + 1) for T in Ts]) for i in range(N)]
    D = PG.Dense(loc, states[0], anc_legs=anc)
    vs = [D(s) for s in states]
    st, tot = TC.call(lambda: fpeps.add(*states, amplitudes=amps))
    if st != 'ok':
        return f"fpeps.add failed: {st}: {tot}", True
    ref = sum(a * v for a, v in zip(amps, vs))
    st, w = TC.call(lambda: D(tot))
    if st != 'ok':
        return f"to_tensor of the sum failed: {st}: {w}", True
    err = np.abs(w - ref).max()
    if not err <= TOL * max(1, np.abs(ref).max()):
        return f"sum of PEPS built from different product states differs from the sum of dense states: max diff {err:.3e}", True
    return None, True


# ---------------------------------------------------------------------------------------------

def replay(case):
    k = case['kind']
    loc = PG.PLocal(case['fam'], case['sym'])
    if k == 'matrices':
        st, msg, _ = gate_matrix_case(loc, case)
        return [msg] if st != 'ok' else []
    if k == 'apply':
        m = apply_case(case)
        return [m] if m else []
    if k == 'double':
        pool = {p[0]: p for p in site_tensor_pool(loc, case.get('seed', 0))}
        _, A, B = pool[case['site']]
        st, msg, _ = double_case(loc, A, A if case['bra_is_ket'] else B, case, case.get('seed', 0))
        return [msg] if st == 'viol' else []
    if k == 'double_seq':
        pool = site_tensor_pool(loc, case.get('seed', 0), (case['spec'],))
        label, A, B = pool[0]
        m = double_seq_case(loc, A, B, case['hist'], dict(dpt_actions(loc)), case.get('seed', 0))
        return [m] if m else []
    if k == 'add':
        m, _ = add_case(loc, case)
        return [m] if m else []
    if k == 'add2':
        m, _ = add2_case(loc, case)
        return [m] if m else []
    if k == 'add_reject':
        acc = _Mini()
        run_add({'fam': case['fam'], 'sym': case['sym']}, acc)
        return [v['msg'] for v in acc.violations if v['case'].get('kind') == 'add_reject'][:3]
    return []


class _Mini:
    def __init__(self):
        self.violations, self.cnt = [], collections.Counter()
        self.evaluations = self.states = self.transitions = 0
        self.tier, self.seed = 'quick', 0

    def ev(self, *a, **k):
        pass

    def fail(self, case, msg, key=None):
        self.violations.append({'case': case, 'msg': msg})

    def sample(self, c):
        pass

    def check_time(self):
        pass


def finalize(summary, tier):
    errs = []
    c = summary['cnt']
    if c.get('gate_matrices', 0) < 1000 or c.get('gates_applied', 0) < 5000 or c.get('double_contractions', 0) < 2000 or c.get('sums', 0) < 100:
        errs.append(f"vacuity: {dict(c)}")
    for d in ('lr', 'rl', 'tb', 'bt', 'local'):
        if c.get('dirn_' + d, 0) < 50:
            errs.append(f"vacuity: direction {d} applied only {c.get('dirn_' + d, 0)} times")
    if summary['states'] < 3000:
        errs.append(f"vacuity: only {summary['states']} states")
    return errs
