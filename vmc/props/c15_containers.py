"""
Container-level part of C15 (MPS/MPO, PEPS, environments).
(a) observer calls: every non-in-place container API call leaves all its arguments byte-identical; documented in-place
    calls change only their receiver (H, operators, gates, option dicts, projected states stay intact).
(b) aliasing histories: explicit-state BFS over {y = x.copy(), y = x.clone()} followed by in-place actions on either
    side (depth <= 2 actions); the other side keeps its snapshot.  shallow_copy may alias tensors but container-level
    re-assignment must not propagate.
"""
import collections
import dataclasses

import numpy as np
import yastn
import yastn.tn.mps as mps
import yastn.tn.fpeps as fpeps

from vmc.engine.runner import h64
from vmc.gen import programs as P
from vmc.gen import mpsgen as MG
from vmc.gen import pepsgen as PG
from . import _tcommon as TC


# ---------------------------------------------------------------------------------------------
# deep snapshot

def dsnap(o, depth=0, seen=None):
    """canonical bytes of the observable content of a container (tensors, numbers, plain containers, dataclasses, objects)"""
    if seen is None:
        seen = set()
    if isinstance(o, yastn.Tensor):
        return b'T' + P.canon(o)
    if o is None or isinstance(o, (bool, int, float, complex, str, bytes, np.generic)):
        return repr(o).encode()
    if isinstance(o, np.ndarray):
        return repr((o.shape, str(o.dtype))).encode() + o.tobytes()
    if isinstance(o, yastn.Leg):
        return repr(o).encode()
    if id(o) in seen or depth > 12:
        return b'<cycle>'
    seen = seen | {id(o)}
    if isinstance(o, dict):
        items = sorted(((repr(k), v) for k, v in o.items()), key=lambda kv: kv[0])
        return b'{' + b','.join(k.encode() + b':' + dsnap(v, depth + 1, seen) for k, v in items) + b'}'
    if isinstance(o, (list, tuple)):
        return b'[' + b','.join(dsnap(v, depth + 1, seen) for v in o) + b']'
    if isinstance(o, fpeps.DoublePepsTensor):
        return b'DPT' + dsnap([o.bra, o.ket, o.trans, o.op, o.swaps], depth + 1, seen)
    if dataclasses.is_dataclass(o) and not isinstance(o, type):
        return type(o).__name__.encode() + dsnap({f.name: getattr(o, f.name) for f in dataclasses.fields(o)}, depth + 1, seen)
    if isinstance(o, mps.MpsMpoOBC) or type(o).__name__ in ('MpsMpoOBC', 'MpoPBC'):
        return b'MPS' + dsnap({'A': o.A, 'pC': o.pC, 'factor': o.factor, 'N': o.N, 'nr_phys': o.nr_phys}, depth + 1, seen)
    if callable(o) and not hasattr(o, '__dict__'):
        return b'<callable>'
    if hasattr(o, '__dict__'):
        d = {k: v for k, v in vars(o).items() if not callable(v) or isinstance(v, (yastn.Tensor,))}
        d = {k: v for k, v in d.items() if k not in ('geometry', 'info', 'xrange', 'yrange') and not k.startswith('_dict_gs')}
        return type(o).__name__.encode() + dsnap(d, depth + 1, seen)
    return repr(type(o)).encode()


def snap(o):
    return h64(dsnap(o))


# ---------------------------------------------------------------------------------------------

def groups(tier):
    gs = []
    for fam, sym in (('spin12', 'dense'), ('spin12', 'U1'), ('spinless', 'Z2'), ('spinless', 'U1'), ('spinful', 'U1xU1')):
        gs.append({'kind': 'c_mps_obs', 'fam': fam, 'sym': sym, 'level': 1})
        gs.append({'kind': 'c_mps_alias', 'fam': fam, 'sym': sym, 'level': 1})
    for fam, sym in (('spinless', 'U1'), ('spinless', 'Z2'), ('spin12', 'dense'), ('spin12', 'Z2')):
        gs.append({'kind': 'c_peps_obs', 'fam': fam, 'sym': sym, 'level': 1})
        gs.append({'kind': 'c_peps_alias', 'fam': fam, 'sym': sym, 'level': 1})
    return gs


def run_group(g, acc):
    {'c_mps_obs': run_mps_obs, 'c_mps_alias': run_mps_alias, 'c_peps_obs': run_peps_obs, 'c_peps_alias': run_peps_alias}[g['kind']](g, acc)


def observe(acc, case, name, args, f, may_change=()):
    """run f; every object in args keeps its snapshot unless its index is in may_change"""
    before = [snap(a) for a in args]
    st, out = TC.call(f)
    acc.transitions += 1
    acc.cnt['container_calls'] += 1
    changed = [i for i, a in enumerate(args) if snap(a) != before[i]]
    bad = [i for i in changed if i not in may_change]
    acc.ev(key=('c', repr(case), name), nontrivial=True, outcome=('c', name, st, tuple(changed)))
    if st == 'exc':
        acc.fail(dict(case, call=name), f"{name} raised: {out}")
    if bad:
        acc.fail(dict(case, call=name), f"{name} modified its argument(s) #{bad} (status {st}); only {sorted(may_change)} may change")
    return st, out


# ---------------------------------------------------------------------------------------------
# MPS / MPO

def mps_objects(g, seed):
    loc = MG.Local(g['fam'], g['sym'])
    N = 3
    ch = loc.charges_N(N)
    n = ch[len(ch) // 2]
    psi = MG.random_state(loc, N, n, 3, (seed, 'c15c', 'psi'), integer=False, cplx=False)
    phi = MG.random_state(loc, N, n, 2, (seed, 'c15c', 'phi'), integer=False, cplx=True)
    from . import c09
    name, a, b = c09.hamiltonians(loc, N, 'quick')[0]
    terms = list(a) + list(b)
    H = mps.generate_mpo(loc.O['I'], terms, N=N)
    return loc, N, psi, phi, H


def run_mps_obs(g, acc):
    loc, N, psi, phi, H = mps_objects(g, acc.seed)
    case = {k: g[k] for k in ('kind', 'fam', 'sym')}
    O = loc.O
    nz = [k for k in O if k != 'I' and not any(O[k].n)]
    opn = O[nz[0]] if nz else O['I']
    psi.canonize_(to='first')
    phi.canonize_(to='first')
    Hs = H if isinstance(H, mps.MpsMpoOBC) else None
    if Hs is None:
        Hs = loc.I_mpo(N)
    calls = [
        ('vdot', [psi, phi], lambda: mps.vdot(psi, phi)),
        ('vdot_mpo', [psi, Hs, phi], lambda: mps.vdot(psi, Hs, phi)),
        ('measure_overlap', [psi, phi], lambda: mps.measure_overlap(psi, phi)),
        ('measure_mpo', [psi, Hs, phi], lambda: mps.measure_mpo(psi, Hs, phi)),
        ('measure_1site', [psi, opn], lambda: mps.measure_1site(psi, opn, psi)),
        ('measure_2site', [psi, opn], lambda: mps.measure_2site(psi, opn, opn, psi)),
        ('measure_nsite', [psi, opn], lambda: mps.measure_nsite(psi, opn, opn, ket=psi, sites=(0, 2))),
        ('add', [psi, phi], lambda: mps.add(psi, phi, amplitudes=(1, 2))),
        ('__add__', [psi, phi], lambda: psi + phi),
        ('__sub__', [psi, phi], lambda: psi - phi),
        ('__mul__', [psi], lambda: 2.5 * psi),
        ('__neg__', [psi], lambda: -psi),
        ('__truediv__', [psi], lambda: psi / 2),
        ('__matmul__', [Hs, psi], lambda: Hs @ psi),
        ('multiply', [Hs, psi], lambda: mps.multiply(Hs, psi)),
        ('mpo@mpo', [Hs], lambda: Hs @ Hs),
        ('conj', [psi], lambda: psi.conj()),
        ('T', [Hs], lambda: Hs.T),
        ('H', [Hs], lambda: Hs.H),
        ('transpose', [Hs], lambda: Hs.transpose()),
        ('norm', [psi], lambda: psi.norm()),
        ('norm_noncanonical', [phi], lambda: (phi + phi).norm()),
        ('get_entropy', [psi], lambda: psi.get_entropy()),
        ('get_Schmidt_values', [psi], lambda: psi.get_Schmidt_values()),
        ('get_bond_dimensions', [psi], lambda: (psi.get_bond_dimensions(), psi.get_bond_charges_dimensions(), psi.get_virtual_legs(), psi.get_physical_legs())),
        ('is_canonical', [psi], lambda: (psi.is_canonical(to='first'), psi.is_canonical(to='last'))),
        ('to_tensor', [psi], lambda: psi.to_tensor()),
        ('to_tensor_mpo', [Hs], lambda: Hs.to_tensor()),
        ('to_matrix', [Hs], lambda: Hs.to_matrix()),
        ('to_dict', [psi], lambda: psi.to_dict()),
        ('to_dict_level0', [psi], lambda: psi.to_dict(level=0)),
        ('save_to_dict', [psi], lambda: psi.save_to_dict()),
        ('copy', [psi], lambda: psi.copy()),
        ('clone', [psi], lambda: psi.clone()),
        ('shallow_copy', [psi], lambda: psi.shallow_copy()),
        ('on_bra', [psi], lambda: psi.on_bra()),
        ('reverse_sites', [psi], lambda: psi.reverse_sites()),
        ('zipper', [Hs, psi], lambda: mps.zipper(Hs, psi, opts_svd={'D_total': 4})),
        ('rdm', [psi], lambda: mps.rdm(psi, 0, 2) if hasattr(mps, 'rdm') else None),
        ('Env', [psi, Hs, phi], lambda: mps.Env(psi, [Hs, phi]).setup_(to='first').measure()),
        ('Env_sum', [psi, Hs, phi], lambda: mps.Env(psi, [[Hs, Hs], phi]).setup_(to='first').measure()),
        ('sample', [psi], lambda: mps.sample(psi, {k: v for k, v in enumerate(proj_vectors(loc))}, number=2) if hasattr(mps, 'sample') else None),
        ('str', [psi], lambda: (str(psi), repr(psi), len(psi), list(psi.sweep(to='last')))),
    ]
    for name, args, f in calls:
        acc.check_time()
        observe(acc, case, name, args, f)
    # documented in-place calls: only the receiver may change
    target = (phi + psi)
    opts = {'D_total': 2, 'tol': 1e-12}
    opts0 = dict(opts)
    y = psi.copy()
    inplace = [
        ('canonize_', [y], lambda: y.canonize_(to='last'), (0,)),
        ('truncate_', [y, opts], lambda: y.truncate_(to='first', opts_svd=opts), (0,)),
        ('orthogonalize_site_', [y], lambda: y.orthogonalize_site_(1, to='last'), (0,)),
        ('absorb_central_', [y], lambda: y.absorb_central_(to='last'), (0,)),
        ('compression_', [y, target, opts], lambda: mps.compression_(y, target, method='2site', max_sweeps=2, opts_svd=opts), (0,)),
        ('compression_mpo_', [y, Hs, psi, opts], lambda: mps.compression_(y, [Hs, psi], method='1site', max_sweeps=1), (0,)),
        ('dmrg_', [y, Hs, opts, phi], lambda: mps.dmrg_(y, Hs, project=[phi], method='2site', max_sweeps=1, opts_svd=opts), (0,)),
        ('dmrg_iterator', [y, Hs, opts], lambda: list(mps.dmrg_(y, Hs, method='1site', max_sweeps=2, iterator=True)), (0,)),
        ('tdvp_', [y, Hs, opts], lambda: list(mps.tdvp_(y, Hs, times=(0, 0.1), dt=0.1, method='2site', opts_svd=opts)), (0,)),
        ('tdvp_12site', [y, Hs, opts], lambda: list(mps.tdvp_(y, Hs, times=(0, 0.05, 0.1), dt=0.05, method='12site', opts_svd=opts)), (0,)),
    ]
    for name, args, f, mc in inplace:
        acc.check_time()
        observe(acc, case, name, args, f, may_change=mc)
    if opts != opts0:
        acc.fail(dict(case, call='opts'), f"an opts_svd dictionary was modified: {opts} != {opts0}")
    acc.sample(case)


def proj_vectors(loc):
    if loc.fam == 'spin12':
        return [loc.ops.vec_z(1), loc.ops.vec_z(-1)]
    if loc.fam == 'spinless':
        return [loc.ops.vec_n(0), loc.ops.vec_n(1)]
    return [loc.ops.vec_n((0, 0)), loc.ops.vec_n((1, 0)), loc.ops.vec_n((0, 1)), loc.ops.vec_n((1, 1))]


def mps_inplace_actions(N):
    acts = [('canonize_last', lambda x: x.canonize_(to='last')),
            ('canonize_first_nn', lambda x: x.canonize_(to='first', normalize=False)),
            ('truncate', lambda x: (x.canonize_(to='last'), x.truncate_(to='first', opts_svd={'D_total': 1}))),
            ('orthogonalize_site', lambda x: x.orthogonalize_site_(0, to='last')),
            ('setitem', lambda x: x.__setitem__(1, 2 * x[1])),
            ('raw_data_write', lambda x: _raw_write(x[N - 1])),
            ('set_block', lambda x: _set_block_write(x[0])),
            ('factor', lambda x: setattr(x, 'factor', 3 * x.factor))]
    return acts


def _raw_write(t):
    t._data[...] = t._data * 3 + 1


def _set_block_write(t):
    ts = t.struct.t[0]
    n = len(ts) // t.ndim_n if t.ndim_n else 0
    key = tuple(ts[i * n:(i + 1) * n] for i in range(t.ndim_n)) if n else ()
    blk = t[key if len(key) != 1 or n else ()]
    blk[...] = blk * 0 + 7


def run_alias_generic(acc, case, make, actions, copiers, depth=2):
    """BFS over (copier, action sequence on source / on copy): the untouched side keeps its snapshot"""
    for cname in copiers:
        for side in ('source', 'copy'):
            frontier = [[]]
            for d in range(depth):
                nxt = []
                for hist in frontier:
                    for aname, _ in actions:
                        acc.check_time()
                        h = hist + [aname]
                        c = dict(case, copier=cname, side=side, hist=h)
                        m = alias_case(make, actions, cname, side, h)
                        acc.states += 1
                        acc.transitions += 1
                        acc.cnt['container_alias_histories'] += 1
                        acc.ev(key=('ca', repr(c)), nontrivial=True, outcome=('ca', cname, side, m is None, aname))
                        if m == 'skip':
                            continue
                        if m:
                            acc.fail(c, m)
                        else:
                            nxt.append(h)
                frontier = nxt


def alias_case(make, actions, cname, side, hist):
    x = make()
    st, y = TC.call(lambda: getattr(x, cname)())
    if st != 'ok':
        return f"{type(x).__name__}.{cname}() failed: {st}: {y}"
    amap = dict(actions)
    sx, sy = snap(x), snap(y)
    if sx != sy and cname in ('copy', 'clone'):
        return f"{type(x).__name__}.{cname}() is not observationally identical to the source"
    tgt, other, so = (x, y, sy) if side == 'source' else (y, x, sx)
    for a in hist:
        st, r = TC.call(lambda: amap[a](tgt))
        if st != 'ok':
            return 'skip'
    if snap(other) != so:
        return (f"after {type(x).__name__}.{cname}(), in-place actions {hist} on the {side} changed the "
                f"{'copy' if side == 'source' else 'source'}")
    return None


def run_mps_alias(g, acc):
    loc, N, psi, phi, H = mps_objects(g, acc.seed)
    case = {k: g[k] for k in ('kind', 'fam', 'sym')}

    def make_mps():
        return MG.random_state(loc, N, loc.charges_N(N)[len(loc.charges_N(N)) // 2], 3, (acc.seed, 'c15c', 'psi'), integer=False, cplx=False)

    def make_mpo():
        return MG.random_operator(loc, N, 2, (acc.seed, 'c15c', 'op'), integer=False)
    run_alias_generic(acc, dict(case, obj='mps'), make_mps, mps_inplace_actions(N), ('copy', 'clone'))
    run_alias_generic(acc, dict(case, obj='mpo'), make_mpo, mps_inplace_actions(N), ('copy', 'clone'), depth=1)
    # shallow copy: container-level re-assignment must not propagate
    acts = [a for a in mps_inplace_actions(N) if a[0] in ('canonize_last', 'truncate', 'orthogonalize_site', 'setitem', 'factor')]
    run_alias_generic(acc, dict(case, obj='mps'), make_mps, acts, ('shallow_copy',), depth=1)
    acc.sample(case)


# ---------------------------------------------------------------------------------------------
# PEPS and environments

def peps_objects(g, seed, dims=(2, 2)):
    loc = PG.PLocal(g['fam'], g['sym'])
    geo = PG.lattice(dims, 'obc')
    psi = PG.make_state(loc, geo, ('purif', 'I'))
    nn, lc = PG.gate_kinds(loc)
    for k, b in enumerate(geo.bonds()):
        kind, par = nn[0]
        psi.apply_gate_(PG.build_gate(loc, {'kind': kind, 'par': par, 'step': PG.jstep(0.2 + 0.1j * (k + 1)), 'sites': [list(b[0]), list(b[1])]}))
    return loc, geo, psi


def a_gate(loc, geo, k=0, step=0.15):
    nn, lc = PG.gate_kinds(loc)
    b = PG.bonds_both(geo)[k]
    kind, par = nn[0]
    return PG.build_gate(loc, {'kind': kind, 'par': par, 'step': PG.jstep(step), 'sites': [list(b[0]), list(b[1])]})


def run_peps_obs(g, acc):
    loc, geo, psi = peps_objects(g, acc.seed)
    case = {k: g[k] for k in ('kind', 'fam', 'sym')}
    O = loc.O
    nz = [k for k in O if k != 'I' and not any(O[k].n)]
    opn = O[nz[0]] if nz else O['I']
    pair = {'spinless': ('cp', 'c'), 'spin12': ('sp', 'sm')}[loc.fam]
    gate = a_gate(loc, geo)
    phi = psi.copy()
    sites = [tuple(s) for s in geo.sites()]
    bonds = [(tuple(b[0]), tuple(b[1])) for b in geo.bonds()]
    calls = [
        ('to_tensor', [psi], lambda: psi.to_tensor()),
        ('transfer_mpo', [psi], lambda: (psi.transfer_mpo(0, 'v'), psi.transfer_mpo(1, 'h'))),
        ('get_bond_dimensions', [psi], lambda: psi.get_bond_dimensions()),
        ('copy', [psi], lambda: psi.copy()),
        ('clone', [psi], lambda: psi.clone()),
        ('shallow_copy', [psi], lambda: psi.shallow_copy()),
        ('to_dict', [psi], lambda: psi.to_dict()),
        ('save_to_dict', [psi], lambda: psi.save_to_dict()),
        ('add', [psi, phi], lambda: fpeps.add(psi, phi, amplitudes=(1, 2))),
        ('__add__', [psi, phi], lambda: psi + phi),
        ('has_physical', [psi], lambda: (psi.has_physical(), psi.config, repr(psi))),
        ('Peps2Layers', [psi], lambda: fpeps.Peps2Layers(psi)[0, 0].fuse_layers()) if hasattr(fpeps, 'Peps2Layers') else ('skip', [], lambda: None),
        ('EnvNTU_metric', [psi], lambda: _ntu_metric(psi, geo)),
        ('EnvCTM_init', [psi], lambda: fpeps.EnvCTM(psi, init='eye')),
        ('EnvBP_init', [psi], lambda: fpeps.EnvBP(psi)),
        ('EnvBoundaryMPS_init', [psi], lambda: fpeps.EnvBoundaryMPS(psi, opts_svd={'D_total': 64}, setup='lrtb')),
    ]
    for name, args, f in calls:
        acc.check_time()
        observe(acc, case, name, args, f)
    # environments: measurements modify neither the environment nor the state nor the operators
    env = fpeps.EnvCTM(psi, init='eye')
    for _ in range(2):
        env.expand_outward_()
    bmps = fpeps.EnvBoundaryMPS(psi, opts_svd={'D_total': 64}, setup='lrtb')
    bp = fpeps.EnvBP(psi)
    bp.iterate_(max_sweeps=3)
    o0, o1 = O[pair[0]], O[pair[1]]
    odict = {s: {'a': opn, 'b': O['I']} for s in sites}
    for ename, e in (('ctm', env), ('bmps', bmps), ('bp', bp)):
        mcalls = [
            ('measure_1site', [e, psi, opn], lambda: e.measure_1site(opn)),
            ('measure_1site_dict', [e, psi, odict], lambda: e.measure_1site(odict)),
            ('measure_nn', [e, psi, o0, o1], lambda: e.measure_nn(o0, o1)),
        ]
        if ename != 'bp':
            mcalls += [
                ('measure_2site', [e, psi, o0, o1], lambda: e.measure_2site(o0, o1, xrange=(0, 2), yrange=(0, 2), pairs='<=')),
                ('measure_nsite', [e, psi, o0, o1], lambda: e.measure_nsite(o0, o1, sites=(sites[0], sites[3]))),
            ]
        if ename == 'ctm':
            mcalls += [
                ('measure_2x2', [e, psi, o0, o1], lambda: e.measure_2x2(o0, o1, sites=(sites[0], sites[3]))),
                ('measure_line', [e, psi, o0, o1], lambda: e.measure_line(o0, o1, sites=(sites[0], sites[1]))),
                ('measure_nsite_exact', [e, psi, o0, o1], lambda: e.measure_nsite_exact(o0, o1, sites=(sites[0], sites[3]))),
                ('copy', [e, psi], lambda: e.copy()),
                ('clone', [e, psi], lambda: e.clone()),
                ('shallow_copy', [e, psi], lambda: e.shallow_copy()),
                ('to_dict', [e, psi], lambda: e.to_dict()),
                ('save_to_dict', [e, psi], lambda: e.save_to_dict()),
                ('boundary_mps', [e, psi], lambda: e.boundary_mps(0, 'l')),
                ('bond_metric', [e, psi], lambda: _env_metric(e, psi, geo)),
                ('sample', [e, psi], lambda: e.sample({k: v for k, v in enumerate(loc.basis_vectors())}, number=1) if loc.fam != 'spinless' or True else None),
            ]
        if ename == 'bp':
            mcalls += [('copy', [e, psi], lambda: e.copy()), ('clone', [e, psi], lambda: e.clone()), ('to_dict', [e, psi], lambda: e.to_dict()),
                       ('bond_metric', [e, psi], lambda: _env_metric(e, psi, geo))]
        if ename == 'bmps':
            mcalls += [('to_dict', [e, psi], lambda: e.to_dict())]
        for name, args, f in mcalls:
            acc.check_time()
            observe(acc, dict(case, env=ename), f"{ename}.{name}", args, f)
    # in-place: apply_gate_ changes psi only; evolution_step_ changes env.psi (and the environment) only; the gate is intact
    y = psi.copy()
    opts = {'D_total': 4, 'tol': 1e-12}
    opts0 = dict(opts)
    observe(acc, case, 'apply_gate_', [y, gate], lambda: y.apply_gate_(gate), may_change=(0,))
    for k, bb in enumerate(PG.bonds_both(geo)):
        gk = a_gate(loc, geo, k, 0.1 + 0.05j * k)
        yk = psi.copy()
        observe(acc, case, f'apply_gate_[{geo.nn_bond_dirn(*bb)}]', [yk, gk], lambda: yk.apply_gate_(gk), may_change=(0,))
    for pth in PG.paths(geo, 3)[::3]:
        gm = PG.build_gate(loc, {'kind': 'mpo', 'par': {'a': 1.0}, 'step': None, 'sites': [list(s_) for s_ in pth]})
        gt = PG.build_gate(loc, {'kind': 'tensors', 'par': {'a': 1.0}, 'step': None, 'sites': [list(s_) for s_ in pth]})
        y3, y4 = psi.copy(), psi.copy()
        observe(acc, case, 'apply_gate_[mpo]', [y3, gm.G], lambda: y3.apply_gate_(gm), may_change=(0,))
        observe(acc, case, 'apply_gate_[tensors]', [y4, list(gt.G)], lambda: y4.apply_gate_(gt), may_change=(0,))
    for ename, e in (('ctm', env), ('bp', bp)):
        for bb in PG.bonds_both(geo):
            observe(acc, dict(case, env=ename), f'{ename}.measure_nn[{geo.nn_bond_dirn(*bb)}]', [e, psi, o0, o1], lambda: e.measure_nn(o0, o1, bond=bb))
    envn = fpeps.EnvNTU(y, which='NN')
    observe(acc, case, 'evolution_step_', [y, gate, opts, psi], lambda: fpeps.evolution_step_(envn, [gate], opts_svd=opts), may_change=(0,))
    y2 = psi.copy()
    envc = fpeps.EnvCTM(y2, init='eye')
    observe(acc, case, 'ctm.update_', [envc, y2, opts], lambda: envc.update_(opts_svd=opts), may_change=(0,))
    observe(acc, case, 'ctm.iterate_', [envc, y2, opts], lambda: envc.iterate_(opts_svd=opts, max_sweeps=2), may_change=(0,))
    observe(acc, case, 'ctm.reset_', [envc, y2], lambda: envc.reset_(init='eye'), may_change=(0,))
    observe(acc, case, 'ctm.expand_outward_', [envc, y2], lambda: envc.expand_outward_(), may_change=(0,))
    envb = fpeps.EnvBP(y2)
    observe(acc, case, 'bp.iterate_', [envb, y2], lambda: envb.iterate_(max_sweeps=2), may_change=(0,))
    observe(acc, case, 'truncate_', [y, opts, psi], lambda: fpeps.truncate_(envn, opts_svd=opts, bond=bonds[0]), may_change=(0,))
    if opts != opts0:
        acc.fail(dict(case, call='opts'), f"an opts_svd dictionary was modified: {opts} != {opts0}")
    acc.sample(case)


def _ntu_metric(psi, geo):
    from . import c12
    b = [(tuple(x[0]), tuple(x[1])) for x in geo.bonds()][0]
    return c12.metric_case(psi, 'NN+', b, geo.nn_bond_dirn(*b))


def _env_metric(env, psi, geo):
    from . import c12
    b = [(tuple(x[0]), tuple(x[1])) for x in geo.bonds()][0]
    dirn = geo.nn_bond_dirn(*b)
    Q0, R0, Q1, R1 = c12.qr_pair(psi, b[0], b[1], dirn)
    return env.bond_metric(Q0, Q1, b[0], b[1], dirn)


def run_peps_alias(g, acc):
    loc, geo, psi0 = peps_objects(g, acc.seed)
    case = {k: g[k] for k in ('kind', 'fam', 'sym')}
    gate = a_gate(loc, geo)
    gate2 = a_gate(loc, geo, 3, 0.3j)
    sites = [tuple(s) for s in geo.sites()]

    def make_peps():
        return psi0.copy()
    pacts = [('apply_gate', lambda x: x.apply_gate_(gate)),
             ('apply_gate2', lambda x: x.apply_gate_(gate2)),
             ('setitem', lambda x: x.__setitem__(sites[1], 2 * x[sites[1]])),
             ('raw_data_write', lambda x: _raw_write(x[sites[2]])),
             ('patch', lambda x: (x.move_to_patch([sites[0]]), x.__setitem__(sites[0], 3 * x[sites[0]]), x.apply_patch())),
             ('evolution_step', lambda x: fpeps.evolution_step_(fpeps.EnvNTU(x, which='NN'), [gate], opts_svd={'D_total': 2}))]
    run_alias_generic(acc, dict(case, obj='peps'), make_peps, pacts, ('copy', 'clone'))
    run_alias_generic(acc, dict(case, obj='peps'), make_peps, [a for a in pacts if a[0] != 'raw_data_write'], ('shallow_copy',), depth=1)

    # two-layer PEPS with a distinct bra
    def make_2l():
        return fpeps.Peps2Layers(ket=psi0.copy(), bra=psi0.copy())
    l2acts = [('ket_apply_gate', lambda x: x.ket.apply_gate_(gate)), ('bra_raw_write', lambda x: _raw_write(x.bra[sites[0]]))]
    run_alias_generic(acc, dict(case, obj='peps2layers'), make_2l, l2acts, ('clone',), depth=1)

    def make_2l_single():
        return fpeps.Peps2Layers(ket=psi0.copy())
    run_alias_generic(acc, dict(case, obj='peps2layers_single'), make_2l_single, l2acts[:1], ('clone',), depth=1)

    # environments: copy() copies the environment tensors (the state is shared by design); clone() is fully independent
    opts = {'D_total': 4, 'tol': 1e-12}

    def make_ctm():
        e = fpeps.EnvCTM(psi0.copy(), init='eye')
        e.expand_outward_()
        return e
    eacts = [('update', lambda e: e.update_(opts_svd=opts)), ('reset', lambda e: e.reset_(init='rand')), ('expand', lambda e: e.expand_outward_()),
             ('raw_env_write', lambda e: _raw_write(e[sites[0]].tl)),
             ('setattr_env', lambda e: setattr(e[sites[1]], 't', 2 * e[sites[1]].t))]
    run_alias_generic(acc, dict(case, obj='envctm'), make_ctm, eacts, ('copy', 'clone'), depth=1)
    psiacts = [('psi_apply_gate', lambda e: e.psi.ket.apply_gate_(gate)), ('psi_raw_write', lambda e: _raw_write(e.psi.ket[sites[0]]))]
    run_alias_generic(acc, dict(case, obj='envctm'), make_ctm, psiacts, ('clone',), depth=1)

    def make_bp():
        e = fpeps.EnvBP(psi0.copy())
        e.iterate_(max_sweeps=2)
        return e
    bacts = [('update', lambda e: e.update_()), ('reset', lambda e: e.reset_(init='eye')), ('raw_env_write', lambda e: _raw_write(e[sites[0]].t))]
    run_alias_generic(acc, dict(case, obj='envbp'), make_bp, bacts, ('copy', 'clone'), depth=1)
    acc.sample(case)


# ---------------------------------------------------------------------------------------------

def replay(case):
    acc = _Mini()
    acc.seed = case.get('seed', 0)
    g = {k: case[k] for k in ('kind', 'fam', 'sym')}
    run_group(g, acc)
    keys = [k for k in case if k not in ('seed',)]
    return [v['msg'] for v in acc.violations if all(v['case'].get(k) == case.get(k) for k in keys)][:3]


class _Mini:
    def __init__(self):
        self.violations, self.cnt = [], collections.Counter()
        self.evaluations = self.states = self.transitions = 0
        self.tier, self.seed = 'quick', 0

    def ev(self, *a, **k):
        pass

    def fail(self, case, msg, key=None):
        self.violations.append({'case': case, 'msg': msg})

    def sample(self, c):
        pass

    def check_time(self):
        pass
