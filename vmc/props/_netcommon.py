"""Build operands and the NumPy einsum reference for a network of gen/networks (shared by C01, C05, C14)."""
import numpy as np

from vmc.gen import legs as GL, tensors as GT, networks as NW
from vmc.models import dense as MD, groups as G


def operand_descriptors(sym, net, conjs, alt=0, ncfg=1, lazy=True, ms_cap=3, odd=None):
    """returns (list of td, s_eff per slot, menu per slot) or None if the legs would conflict"""
    ms = GL.msize(sym, ms_cap)
    ranks = net['ranks']
    slots = NW.slots_of(ranks)
    s_eff, menu = [None] * len(slots), [None] * len(slots)
    for i, (p, q) in enumerate(net['pairs']):
        s_eff[p] = 1 if i % 2 == 0 else -1
        s_eff[q] = -s_eff[p]
        menu[p] = i % ms
        menu[q] = (menu[p] + alt) % ms
        if not GL.consistent(GL.MENU[sym][menu[p]], GL.MENU[sym][menu[q]]):
            return None
    k = 0
    for i in range(len(slots)):
        if s_eff[i] is None:
            s_eff[i] = -1 if k % 2 else 1
            menu[i] = (k + 1) % ms
            k += 1
    nch = len(GL.CHARGES[sym])
    tds, c = [], 0
    for t, r in enumerate(ranks):
        flip = -1 if conjs[t] else 1
        if ncfg == 0:
            n = 0
        elif ncfg == 1:
            n = min(1, nch - 1) if t == 0 else 0
        else:
            n = min(1, nch - 1)
        if odd is not None:
            n = min(1, nch - 1) if odd[t] else 0
        var = ['fresh']
        if lazy and t == 0 and r >= 2:
            var = ['lazy', list(range(r))[::-1]]
        elif lazy and t == 2 and r >= 2:
            var = ['lazy', list(range(1, r)) + [0]]
        tds.append({'s': [flip * s_eff[c + l] for l in range(r)], 'm': [menu[c + l] for l in range(r)], 'n': n,
                    'drop': None, 'var': var, 'id': f't{t}'})
        c += r
    return tds, s_eff, menu


def reference(sym, net, built, conjs, out_perm, swaps=None, fss=None):
    """
    np.einsum reference. built: list of Built. Returns (R, spaces, sig, n).
    swaps: list of [label1, label2] in ncon label convention (positive: contracted pair index; non-positive:
    -output position); each contributes one sign operand (-1)^{p(e1) p(e2)}.
    """
    mods = G.moduli(sym)
    ranks = net['ranks']
    slots = NW.slots_of(ranks)
    inds, opens = NW.inds_of(net, out_perm)
    # spaces per label: union over its ends
    lab_space = {}
    c = 0
    for t, r in enumerate(ranks):
        for l in range(r):
            lab = inds[t][l]
            sp = built[t].spaces[l]
            lab_space[lab] = MD.union(lab_space[lab], sp) if lab in lab_space else dict(sp)
        c += r
    ops = []
    letters = {}

    def L(lab):
        return letters.setdefault(lab, len(letters))
    ntot = G.zero(mods)
    for t, r in enumerate(ranks):
        b = built[t]
        A = b.A.conj() if conjs[t] else b.A
        nt = G.neg(mods, b.n) if conjs[t] else tuple(b.n)
        ntot = G.add(mods, [ntot, nt])
        Ae = MD.embed(A, b.spaces, [lab_space[inds[t][l]] for l in range(r)])
        ops += [Ae, [L(inds[t][l]) for l in range(r)]]
    for sw in (swaps or []):
        e1, e2 = sw
        c1 = MD.charge_vectors(lab_space[e1])
        c2 = MD.charge_vectors(lab_space[e2])
        S = np.array([[G.swap_sign(fss, a, b_) for b_ in c2] for a in c1], dtype=np.float64).reshape(len(c1), len(c2))
        ops += [S, [L(e1), L(e2)]]
    nout = len(opens)
    out_labels = [-pos for pos in range(nout)]
    R = np.einsum(*ops, [L(lab) for lab in out_labels])
    spaces = [lab_space[lab] for lab in out_labels]
    # signature of output legs: effective signature of the open slot
    sig = []
    for lab in out_labels:
        c = 0
        for t, r in enumerate(ranks):
            for l in range(r):
                if inds[t][l] == lab:
                    s = built[t].s[l] * (-1 if conjs[t] else 1)
                    sig.append(s)
            c += r
    return R, spaces, tuple(sig), ntot, inds


def einsum_strings(inds, conjs, order=None):
    """yastn.einsum subscripts for ncon-style inds; returns (subscripts, order string or None)"""
    outs = sorted({x for ii in inds for x in ii if x <= 0}, reverse=True)   # 0, -1, -2 ...
    pos = sorted({x for ii in inds for x in ii if x > 0})
    out_letters = {lab: 'abcdefgh'[k] for k, lab in enumerate(outs)}
    in_letters = {lab: 'PQRSTUVWXYZ'[k] for k, lab in enumerate(pos)}
    d = {**out_letters, **in_letters}
    parts = [('*' if cj else '') + ''.join(d[x] for x in ii) for ii, cj in zip(inds, conjs)]
    sub = ','.join(parts) + '->' + ''.join(out_letters[lab] for lab in outs)
    ordr = None if order is None else ''.join(in_letters[x] for x in order)
    return sub, ordr, d
