"""
C13 - Truncation keeps exactly the largest weights and reports the true error.
(a) truncation_mask on every spectrum of a bounded family (1..3 sectors, sizes 1..3, every non-increasing tuple over a
    small value alphabet incl. degeneracies and zeros) x every combination of the four limits (scalars and per-sector
    dictionaries), compared with the two-stage maximal-selection model (models/selection).
(b) svd_with_truncation / eigh_with_truncation on tensors x bipartitions x limit grid: kept values = model applied to
    the full spectrum, limits respected, Eckart-Young error identity, nothing positive discarded when limits do not bind.
"""
import itertools
from collections import Counter

import numpy as np
import yastn

from vmc.gen import configs as GC, legs as GL, tensors as GT
from vmc.models import dense as MD, groups as G, selection as SEL
from . import _tcommon as TC

PROPERTY_ID = 'C13'
LEVEL = 'exploration'
RULE = ("product enumeration: (a) (symmetry, sector sizes, values per sector, D_total, D_block [scalar|dict], tol, tol_block "
        "[scalar|dict]); (b) (symmetry, tensor, bipartition, limits). one case = one mask/factorisation compared with the "
        "selection model; non-trivial = limits discard at least one positive value and keep at least one; distinct by case hash")
ASSUMPTIONS = ["tolerances avoid exact equality v == tol*max (both readings of the boundary are acceptable)",
               "a sector missing from a D_block/tol_block dictionary is unspecified by the documentation: not compared",
               "spectra are non-negative (singular values / eigenvalues of PSD operators)"]
BUDGET = {'quick': 170, 'thorough': 900}
INF = float('inf')

SECTORS = {'Z2': [(0,), (1,)], 'U1': [(-1,), (0,), (2,)], 'U1xU1': [(0, 0), (1, -1), (0, 2)], 'dense': [()],
           'Z3': [(0,), (1,), (2,)]}


def nonincr(n, alpha):
    return [t for t in itertools.product(alpha, repeat=n) if all(t[i] >= t[i + 1] for i in range(n - 1))]


def size_patterns(nsec, tier):
    mx = 3
    pats = [p for p in itertools.product(range(1, mx + 1), repeat=nsec)]
    if nsec == 3:
        pats = [p for p in pats if sum(p) <= (5 if tier == 'quick' else 7)]
    return pats


def groups(tier, seed):
    gs = []
    for sym in ('dense', 'Z2', 'U1', 'U1xU1', 'Z3'):
        nmax = len(SECTORS[sym])
        for nsec in range(1, nmax + 1):
            for sz in size_patterns(nsec, tier):
                if tier == 'quick' and sum(sz) > (5 if sym == 'U1' and nsec == 2 else 4):
                    continue
                gs.append({'kind': 'mask', 'sym': sym, 'sizes': list(sz), 'level': 1 if sum(sz) <= 4 else 2})
    fact = []
    for sym in GC.SYMS:
        for fac in ('svd', 'eigh'):
            fact.append({'kind': 'fact', 'sym': sym, 'fac': fac, 'level': 1})
    return fact + gs     # the few factorisation groups first: a time cap then ends mask groups, not a whole clause


def limit_grid(secs, tier):
    Dt = [0, 1, 2, 3, 5, INF]
    Db = [0, 1, 2, INF]
    if len(secs) >= 2:
        Db.append({'dict': [1, 2, 1][:len(secs)]})
        Db.append({'dict': [2, 0, INF][:len(secs)]})
        Db.append({'dict_missing': [1]})
    tols = [0, 0.3, 0.4, 0.6, 0.9]
    tbs = [0, 0.4, 0.7]
    if len(secs) >= 2:
        tbs.append({'dict': [0.4, 0, 0.7][:len(secs)]})
        tbs.append({'dict_missing': [0.6]})
    if tier != 'quick':
        tols += [0.7, 1.0 - 1e-9]
        tbs += [0.9]
    return Dt, Db, tols, tbs


def materialise(v, secs):
    """turn grid entry into the argument passed to yastn and the per-sector dict (None = unspecified) for the model"""
    if isinstance(v, dict):
        if 'dict' in v:
            d = {secs[i]: v['dict'][i] for i in range(len(secs))}
            return dict(d), dict(d)
        d = {secs[0]: v['dict_missing'][0]}
        return dict(d), {t: (d[t] if t in d else None) for t in secs}
    return v, {t: v for t in secs}


def run_group(g, acc):
    if g['kind'] == 'mask':
        return run_mask(g, acc)
    return run_fact(g, acc)


def run_mask(g, acc):
    sym = g['sym']
    cfg = GC.make(sym)
    secs = SECTORS[sym][:len(g['sizes'])]
    alpha = (3, 2, 1, 0) if acc.tier == 'quick' else (4, 3, 2, 1, 0)
    Dt, Db, tols, tbs = limit_grid(secs, acc.tier)
    for vals, ordered in unsorted_variants(itertools.product(*[nonincr(n, alpha) for n in g['sizes']])):
        spec = {t: list(v) for t, v in zip(secs, vals)}
        S = build_S(cfg, spec)
        s_bytes = S._data.tobytes()
        # spectra that are not stored in descending order (truncation_mask is public and takes any diagonal tensor):
        # every rotation/reversal of each sector, on a reduced grid of the global limits
        for D_total in (Dt if ordered else [1, 2, INF]):
            for D_block in Db:
                for tol in (tols if ordered else [0, 0.4]):
                    for tol_block in tbs:
                        acc.check_time()
                        case = {'kind': 'mask', 'sym': sym, 'spec': [[list(t), v] for t, v in spec.items()], 'D_total': D_total,
                                'D_block': D_block, 'tol': tol, 'tol_block': tol_block}
                        st, msg, nt = mask_case(case, cfg, S, spec, secs)
                        acc.ev(repr(case), nt and st == 'ok', (st, nt))
                        acc.cnt['mask_' + st + ('' if ordered else '_unsorted')] += 1
                        if st == 'viol':
                            acc.fail(case, msg)
                        elif acc.evaluations % 20011 == 0:
                            acc.sample(case)
        if S._data.tobytes() != s_bytes:
            acc.fail({'kind': 'mask', 'sym': sym, 'spec': [[list(t), v] for t, v in spec.items()]}, "truncation_mask modified S")


def unsorted_variants(it):
    """every descending spectrum (ordered=True) followed by its distinct re-orderings: per sector the reversal and the
    rotations, all sectors re-ordered by the same rule (ordered=False)"""
    for vals in it:
        yield vals, True
        seen = {tuple(vals)}
        for rule in ('rev', 'rot1', 'rot2'):
            w = []
            for v in vals:
                v = tuple(v)
                k = {'rot1': 1, 'rot2': 2}.get(rule, 0) % max(1, len(v))
                w.append(v[::-1] if rule == 'rev' else v[k:] + v[:k])
            w = tuple(w)
            if w not in seen:
                seen.add(w)
                yield w, False


def build_S(cfg, spec):
    S = yastn.Tensor(config=cfg, isdiag=True)
    for t, v in spec.items():
        S.set_block(ts=t + t, Ds=(len(v), len(v)), val=np.array(v, dtype=np.float64))
    return S


def mask_case(case, cfg, S, spec, secs):
    Db_arg, Db_model = materialise(case['D_block'], secs)
    tb_arg, tb_model = materialise(case['tol_block'], secs)
    kw = dict(tol=case['tol'], tol_block=tb_arg, D_block=Db_arg, D_total=case['D_total'])
    st, m = TC.call(lambda: S.truncation_mask(**kw))
    if st != 'ok':
        return 'viol', f"truncation_mask({kw}) on {spec}: unexpected {st}: {m}", False
    if not m.isdiag or m.yastn_dtype != 'bool' or m.get_legs() != S.get_legs():
        return 'viol', f"mask is not a boolean diagonal tensor on the legs of S (diag={m.isdiag}, dtype={m.yastn_dtype})", False
    unspecified = [t for t in secs if Db_model[t] is None or tb_model[t] is None]
    if unspecified:
        return 'rejected', None, False
    surv, kept_ref = SEL.select(spec, case['D_total'], Db_model, case['tol'], tb_model)
    kept = []
    for t, v in spec.items():
        mk = np.asarray(m[t + t]).astype(bool)
        kv = [x for x, b in zip(v, mk) if b]
        dv = [x for x, b in zip(v, mk) if not b]
        if kv and dv and max(dv) > min(kv):
            return 'viol', f"truncation_mask({kw}) on {spec}: sector {t} discards {max(dv)} but keeps {min(kv)}", True
        if Counter(kv) - Counter(surv[t]):
            return 'viol', (f"truncation_mask({kw}) on {spec}: sector {t} keeps {kv}, but the per-sector limits allow only "
                            f"{surv[t]}"), True
        kept += kv
    if sorted(kept, reverse=True) != kept_ref:
        return 'viol', (f"truncation_mask({kw}) on {spec}: keeps {sorted(kept, reverse=True)}; the maximal selection under the "
                        f"limits is {kept_ref}"), True
    allv = [x for v in spec.values() for x in v]
    nt = 0 < len(kept) < sum(1 for x in allv if x > 0)
    return 'ok', None, nt


# ---------------------------------------------------------------------------------------------
# (b) factorisations with truncation

FACT_LIMITS = [
    {}, {'D_total': 1}, {'D_total': 2}, {'D_total': 3}, {'D_block': 1}, {'D_block': 2, 'D_total': 3}, {'tol': 0.3}, {'tol': 0.05},
    {'tol_block': 0.3}, {'tol_block': 0.2, 'D_total': 2}, {'tol': 1e-14, 'D_total': 10 ** 6}, {'D_total': 0},
    {'D_block': 'dict1'}, {'D_block': 'dict1', 'tol_block': 0.25}, {'tol_block': 'dict', 'D_block': 2}, {'tol': 0.2, 'D_block': 'dict1', 'D_total': 2},
]


def fact_pool(sym, tier):
    ms = GL.msize(sym, 3)
    nch = min(2, len(GL.CHARGES[sym]))
    for r in (2, 3, 4):
        sigs = {2: [[1, -1], [1, 1]], 3: [[1, -1, 1]], 4: [[1, 1, -1, -1]]}[r]
        for sig in sigs:
            for m in ([[i % ms for i in range(r)], [(i + 1) % ms for i in range(r)]] if ms > 1 else [[0] * r]):
                for n in range(nch):
                    for var in (['fresh'], ['lazy', list(range(r))[::-1]]):
                        if r == 4 and (var[0] == 'lazy') != (n == 1):
                            continue
                        yield {'s': sig, 'm': m, 'n': n, 'drop': None, 'var': var}


def run_fact(g, acc):
    sym, fac = g['sym'], g['fac']
    cfg = GC.make(sym)
    for td in fact_pool(sym, acc.tier):
        r = len(td['s'])
        bips = {2: [([0], [1]), ([1], [0])], 3: [([0, 1], [2]), ([2], [1, 0]), ([1], [0, 2])], 4: [([0, 1], [2, 3]), ([3, 0], [1, 2])]}[r]
        for L, R in bips:
            for li, lim in enumerate(FACT_LIMITS):
                for sU in (1, -1):
                    acc.check_time()
                    case = {'kind': 'fact', 'sym': sym, 'fac': fac, 'td': td, 'axes': [L, R], 'lim': li, 'sU': sU}
                    st, msg, nt = fact_case(case, cfg, acc.seed)
                    if st == 'skip':
                        continue
                    acc.ev(repr(case), nt and st == 'ok', (fac, st, nt))
                    acc.cnt[fac + '_' + st] += 1
                    if nt:
                        acc.cnt[fac + '_binding'] += 1
                    if st == 'viol':
                        acc.fail(case, msg)
                    elif acc.evaluations % 1009 == 0:
                        acc.sample(case)


def _spectrum(S):
    leg = S.get_legs(0)
    return {t: [float(v) for v in np.asarray(S[t + t]).real] for t in leg.t}


def fact_case(case, cfg, seed):
    sym = case['sym']
    b = GT.build(cfg, sym, case['td'], seed, generic=True)
    L, R = case['axes']
    x = b.x
    lim = dict(FACT_LIMITS[case['lim']])
    scale = max(1.0, float(np.linalg.norm(b.A)))
    if case['fac'] == 'svd':
        U0, S0, V0 = yastn.svd(x, axes=(tuple(L), tuple(R)), sU=case['sU'])
        a_for_err = x.transpose(tuple(L + R))
        f = lambda kw: yastn.svd_with_truncation(x, axes=(tuple(L), tuple(R)), sU=case['sU'], **kw)
    else:
        k = len(L)
        g = yastn.tensordot(x, x, axes=(tuple(R), tuple(R)), conj=(0, 1))     # PSD, legs (L, L*)
        ax = (tuple(range(k)), tuple(range(k, 2 * k)))
        S0, U0 = yastn.eigh(g, axes=ax, sU=case['sU'], which='LM')
        a_for_err = g
        f = lambda kw: yastn.eigh_with_truncation(g, axes=ax, sU=case['sU'], which='LM', **kw)
    spec = _spectrum(S0)
    secs = sorted(spec)
    if not secs:
        return 'skip', None, False
    # materialise dictionary limits
    kw, Dbm, tbm = {}, {t: INF for t in secs}, {t: 0 for t in secs}
    for key, v in lim.items():
        if key == 'D_block':
            if v == 'dict1':
                d = {t: (1 if i % 2 == 0 else 2) for i, t in enumerate(secs)}
                kw[key], Dbm = d, dict(d)
            else:
                kw[key], Dbm = v, {t: v for t in secs}
        elif key == 'tol_block':
            if v == 'dict':
                d = {t: (0.3 if i % 2 == 0 else 0.0) for i, t in enumerate(secs)}
                kw[key], tbm = d, dict(d)
            else:
                kw[key], tbm = v, {t: v for t in secs}
        else:
            kw[key] = v
    st, res = TC.call(f, kw)
    if st != 'ok':
        return 'viol', f"{case['fac']}_with_truncation({kw}): unexpected {st}: {res}", False
    if case['fac'] == 'svd':
        U, S, V = res
        rec = U @ S @ V
    else:
        S, U = res
        k = len(L)
        rec = yastn.tensordot(U @ S, U, axes=(k, k), conj=(0, 1))
    got = _spectrum(S)
    surv, kept_ref = SEL.select(spec, kw.get('D_total', INF), Dbm, kw.get('tol', 0), tbm)
    kept = sorted([v for vs in got.values() for v in vs], reverse=True)
    allv = sorted([v for vs in spec.values() for v in vs], reverse=True)
    # exact zeros may be dropped (they carry no weight)
    ref_pos = [v for v in kept_ref if v > 1e-13 * scale]
    got_pos = [v for v in kept if v > 1e-13 * scale]
    if len(ref_pos) != len(got_pos) or not np.allclose(ref_pos, got_pos, rtol=1e-9, atol=1e-12 * scale):
        return 'viol', (f"{case['fac']}_with_truncation({kw}): kept values {got_pos} differ from the maximal selection "
                        f"{ref_pos} of the full spectrum {spec}"), True
    for t, vs in got.items():
        if len(vs) > Dbm.get(t, INF) or (t not in spec):
            return 'viol', f"{case['fac']}_with_truncation({kw}): sector {t} keeps {len(vs)} values, limit {Dbm.get(t)}", True
    if len(kept) > kw.get('D_total', INF):
        return 'viol', f"{case['fac']}_with_truncation({kw}): keeps {len(kept)} > D_total", True
    err = (a_for_err - rec).norm() if kept else a_for_err.norm()
    # norm of the discarded values, from the multiset difference (a difference of squared norms would turn round-off
    # 1e-14 into 1e-7 when nothing is discarded); for eigh: U S U^dag of a PSD operator
    rest = list(allv)
    for v in kept:
        if rest:
            rest.pop(min(range(len(rest)), key=lambda i: abs(rest[i] - v)))
    expect = np.sqrt(sum(v * v for v in rest))
    if abs(err - expect) > 1e-10 * scale ** (2 if case['fac'] == 'eigh' else 1) + 1e-9 * expect:
        return 'viol', (f"{case['fac']}_with_truncation({kw}): ||a - truncated|| = {err} but the discarded values have norm "
                        f"{expect}"), True
    nt = 0 < len(got_pos) < len([v for v in allv if v > 1e-13 * scale])
    return 'ok', None, nt


def replay(case):
    cfg = GC.make(case['sym'])
    if case['kind'] == 'mask':
        spec = {tuple(t): list(v) for t, v in case['spec']}
        if 'D_total' not in case:
            return []
        secs = list(spec)
        S = build_S(cfg, spec)
        st, msg, _ = mask_case(case, cfg, S, spec, secs)
        return [msg] if st == 'viol' else []
    st, msg, _ = fact_case(case, cfg, case.get('seed', 0))
    return [msg] if st == 'viol' else []


def finalize(summary, tier):
    errs = []
    c = summary['cnt']
    if c.get('mask_ok', 0) < 10000 or c.get('svd_binding', 0) < 100 or c.get('eigh_binding', 0) < 100:
        errs.append(f"vacuity: mask_ok={c.get('mask_ok')} svd_binding={c.get('svd_binding')} eigh_binding={c.get('eigh_binding')}")
    return errs
