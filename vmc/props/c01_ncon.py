def groups(base, tier):
    return []
def run_group(g, cfg, acc):
    pass
def replay(case, cfg):
    return []
