"""ncon / einsum section of C01 (no swap gates here; fermionic networks are C05)."""
import itertools

import numpy as np
import yastn

from vmc.gen import legs as GL, tensors as GT, networks as NW
from vmc.models import dense as MD, groups as G
from . import _tcommon as TC
from . import _netcommon as NC

INEFFICIENT = "Likely inefficient order"


def groups(base, tier):
    P = 4 if tier == 'quick' else 16
    return [dict(base, sec='n_ncon', part=p, parts=P, level=1) for p in range(P)]


def conj_menu(nt, tier):
    if tier != 'quick' or nt <= 2:
        return list(itertools.product((0, 1), repeat=nt))
    return [(0,) * nt, tuple(i % 2 for i in range(nt)), (1,) * nt, tuple((i + 1) % 2 for i in range(nt))]


def cases(g, tier):
    sym = g['sym']
    nets = NW.networks(3, 3, 6 if tier == 'quick' else 8, max_open=4) if tier == 'quick' else \
        NW.networks(4, 3, 8, max_open=4)
    k = -1
    for net in nets:
        k += 1
        if k % g['parts'] != g['part']:
            continue
        nt = len(net['ranks'])
        npairs = len(net['pairs'])
        nopen = sum(net['ranks']) - 2 * npairs
        operms = NW.out_perms(nopen, 0 if tier == 'quick' else 1)
        if tier == 'quick' and len(operms) > 2:
            operms = [operms[0], operms[-1]]
        orders = [None] + [list(p) for p in itertools.permutations(range(1, npairs + 1))][1:]
        for alt in (0, 1):
            for conjs in conj_menu(nt, tier):
                for op in operms:
                    for order in orders:
                        for api in (('ncon', 'einsum') if order is None or npairs <= 2 else ('ncon',)):
                            yield {'op': api, 'net': net, 'alt': alt, 'conjs': list(conjs), 'out_perm': list(op),
                                   'order': order}


def run_group(g, cfg, acc):
    sym = g['sym']
    for case in cases(g, acc.tier):
        acc.check_time()
        case.update(sec='n_ncon', sym=sym, dtype=g['dtype'])
        st, msg, nb = run_case(case, cfg, acc.seed)
        if st == 'skip':
            continue
        acc.ev(repr(sorted(case.items())), nb >= 2 and st == 'ok', (case['op'], st, len(case['net']['ranks'])))
        acc.cnt['ncon_' + st] += 1
        if st == 'viol':
            acc.fail(case, msg)
        elif acc.evaluations % 1009 == 0:
            acc.sample(case)


def replay(case, cfg):
    st, msg, _ = run_case(case, cfg, case.get('seed', 0))
    return [msg] if st == 'viol' else []


def run_case(case, cfg, seed):
    sym, net = case['sym'], case['net']
    od = NC.operand_descriptors(sym, net, case['conjs'], alt=case['alt'])
    if od is None:
        return 'skip', None, 0
    tds, s_eff, menu = od
    built = [GT.build(cfg, sym, td, seed) for td in tds]
    nb = sum(b.nblocks for b in built)
    try:
        R, spaces, sig, ntot, inds = NC.reference(sym, net, built, case['conjs'], case['out_perm'])
    except MD.ShadowError as e:
        return 'skip', None, 0
    ts = [b.x for b in built]
    if case['op'] == 'ncon':
        f = lambda: yastn.ncon(ts, inds, conjs=case['conjs'], order=case['order'])
    else:
        sub, ordr, _ = NC.einsum_strings(inds, case['conjs'], case['order'])
        f = lambda: yastn.einsum(sub, *ts, order=ordr)
    st, r = TC.call(f)
    if st == 'yerr' and INEFFICIENT in r:
        return 'rejected', None, nb
    if st != 'ok':
        return 'viol', f"{case['op']} inds={inds} order={case['order']}: unexpected {st}: {r}", nb
    try:
        m = TC.check_result(r, R, spaces, sig, ntot, what=f"{case['op']}(inds={inds}, conjs={case['conjs']}, order={case['order']})")
    except MD.ShadowError as e:
        m = str(e)
    return ('viol', m, nb) if m else ('ok', None, nb)
