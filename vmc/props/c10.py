"""
C10 - TDVP conserves what it must and is exact on the full manifold.
Grid enumeration: generators (single MPO, sums, time-dependent) x initial states (charges, bond dimensions, full
manifold) x methods x orders x u x time grids x dt x flags; every yielded snapshot is observed.  Oracle: dense
scipy.linalg.expm / ODE reference, conservation laws, bookkeeping arithmetic.
"""
import collections
import itertools
import math

import numpy as np
import scipy.linalg
import scipy.integrate
import yastn
import yastn.tn.mps as mps

from vmc.gen import mpsgen as MG
from . import _tcommon as TC
from . import c09

PROPERTY_ID = 'C10'
LEVEL = 'exploration'
RULE = ("grid enumeration (family, symmetry, generator, N, initial state, method, order, u, time grid, dt, normalize, subtract_E, "
        "precompute, expmv/svd options); one evaluation = one observed snapshot; non-trivial = sector dimension >= 3; distinct by "
        "hash of (run descriptor, snapshot index)")
ASSUMPTIONS = ["full manifold = random_mps with a bond cap above d^N (over-complete bonds), canonized to the first site",
               "conservation tolerances 1e-9, exactness 1e-9, order clause asserted only while both errors exceed 1e-8"]
BUDGET = {'quick': 170, 'thorough': 1200}

TIME_GRIDS = [0.3, (0, 0.3), (0, 0.25, 0.6), (0.1, 0.2, 0.45)]
DTS = [0.1, 0.125, 0.07, 0.5, 1.0]
US = [1j, 1, 0.3 + 0.7j, -1j]


def groups(tier, seed):
    gs = []
    fams = [('spinless', 'Z2'), ('spinless', 'U1'), ('spin12', 'dense'), ('spin12', 'U1'), ('spin12', 'Z2'), ('spin1', 'U1'), ('spinful', 'U1xU1')]
    for fam, sym in fams:
        for N in ((2, 3) if tier == 'quick' else (2, 3, 4, 5)):
            if fam in ('spinful',) and N > 2:
                continue
            if fam == 'spin1' and N > 3:
                continue
            for kind in ('book', 'physics', 'exact'):
                gs.append({'fam': fam, 'sym': sym, 'N': N, 'kind': kind, 'level': 1 if N <= 2 else 2})
    for fam, sym in (('spinless', 'U1'), ('spin12', 'dense'), ('spin12', 'Z2')):
        gs.append({'fam': fam, 'sym': sym, 'N': 3, 'kind': 'timedep', 'level': 2})
    return gs


def full_state(loc, N, n, idx, seed, cplx=True):
    """state at MAXIMAL bond dimensions (random_mps with a large cap: bonds grow as d^k from the last site), canonized;
    (bonds at exact Schmidt rank are not enough for the 1-site projector-splitting integrator to be exact - probed)"""
    psi = MG.random_state(loc, N, n, 4 ** N + 16, (seed, 'c10full', loc.fam, loc.sym, N, tuple(n)), integer=False, cplx=cplx)
    psi.canonize_(to='first')
    v = MG.dense_vec(psi, loc)
    return psi, v


def setup(g, acc):
    loc = MG.Local(g['fam'], g['sym'])
    N = g['N']
    hams = c09.hamiltonians(loc, N, acc.tier)
    hams = [hams[0], hams[-1]] if len(hams) > 1 else hams
    charges = loc.charges_N(N)
    n = charges[len(charges) // 2]
    idx = c09.sector_indices(loc, N, n)
    out = []
    I = loc.I_mpo(N)
    for hname, ta, tb in hams:
        H = mps.generate_mpo(I, ta + tb)
        Hd = MG.dense_mat(H, loc)
        Hsum = [mps.generate_mpo(I, ta), mps.generate_mpo(I, tb)] if ta and tb else None
        out.append((hname, H, Hsum, Hd))
    return loc, N, n, idx, out


def run_group(g, acc):
    loc, N, n, idx, hams = setup(g, acc)
    if len(idx) == 0:
        return
    {'book': run_book, 'physics': run_physics, 'exact': run_exact, 'timedep': run_timedep}[g['kind']](g, loc, N, n, idx, hams, acc)


def expected_steps(t0, t1, dt):
    return int((t1 - t0 - 1e-12) // dt) + 1


def observe_run(run, loc, psi, H, Hd, idx, v0, acc, full=False, nobind=True, timedep=None):
    """runs tdvp_ with the options in `run`, checks every snapshot"""
    times = run['times']
    tgrid = (0, times) if not hasattr(times, '__iter__') else tuple(times)
    kw = dict(times=times, dt=run['dt'], u=_uj(run['u']), method=run['method'], order=run['order'], normalize=run['normalize'],
              subtract_E=run['subtract_E'], precompute=run['pre'], yield_initial=run['yield_initial'])
    if run.get('expmv') is not None:
        kw['opts_expmv'] = dict(run['expmv'])
    if run['method'] != '1site':
        kw['opts_svd'] = dict(run.get('svd') or {'tol': 1e-14})
    leg0 = psi.virtual_leg('first')
    u = _uj(run['u'])
    E0 = np.real(np.vdot(v0, Hd @ v0) / np.vdot(v0, v0)) if Hd is not None else None
    st, it = TC.call(lambda: mps.tdvp_(psi, H, **kw))
    if st != 'ok':
        acc.fail(run, f"tdvp_ setup: {st}: {it}")
        return
    nyield = 0
    expected = len(tgrid) - 1 + (1 if run['yield_initial'] else 0)
    k = 0
    while True:
        st, out = TC.call_timed(20, lambda: next(it))
        if st == 'timeout':
            key = 'tdvp:expmv-ncv-option-does-not-terminate' if (run.get('expmv') or {}).get('ncv') else \
                f"tdvp:timeout:{run['fam']}:{run['sym']}:N{run['N']}:{run['H']}:{run['method']}:{run['order']}:u={_uj(run['u'])}:sub={run['subtract_E']}:nz={run['normalize']}"
            acc.fail(dict(run, snapshot=nyield), "tdvp_ did not return within 20 s (expmv step controller does not terminate)", key=key)
            return None
        if st != 'ok':
            if 'StopIteration' in str(out):
                break
            acc.fail(dict(run, snapshot=nyield), f"tdvp_ snapshot {nyield}: {st}: {out}")
            return
        nyield += 1
        msg = None
        initial = run['yield_initial'] and nyield == 1
        if initial:
            if out.ti != tgrid[0] or out.tf != tgrid[0] or out.steps != 0:
                msg = f"initial yield reports ti={out.ti} tf={out.tf} steps={out.steps}"
        else:
            k += 1
            t0, t1 = tgrid[k - 1], tgrid[k]
            steps = expected_steps(t0, t1, run['dt'])
            if abs(out.tf - t1) > 1e-12 * max(1, abs(t1)):
                msg = f"snapshot {k}: reported time {out.tf}, requested {t1}"
            elif abs(out.ti - t0) > 1e-12 * max(1, abs(t0)):
                msg = f"snapshot {k}: reported initial time {out.ti}, expected {t0}"
            elif out.steps != steps:
                msg = f"snapshot {k}: {out.steps} steps for interval {t1 - t0} with dt={run['dt']}, expected ceil = {steps}"
            elif abs(out.dt * out.steps - (t1 - t0)) > 1e-12 or out.dt > run['dt'] + 1e-15:
                msg = f"snapshot {k}: dt={out.dt} x steps={out.steps} != interval {t1 - t0} (or dt above the requested {run['dt']})"
            elif out.time_independent != (timedep is None):
                msg = f"time_independent flag = {out.time_independent}"
        v = MG.dense_vec(psi, loc)
        nv = np.linalg.norm(v)
        tcur = out.tf - tgrid[0]
        if not msg:
            outside = np.linalg.norm(np.delete(v, idx)) if len(idx) < len(v) else 0.0
            if not initial and not canonical_first(psi):
                msg = f"snapshot at t={out.tf}: state not canonical to 'first'"
            elif psi.virtual_leg('first') != leg0 or outside > 1e-9 * max(1, nv):
                msg = f"snapshot at t={out.tf}: state left its charge sector (weight outside {outside})"
            elif run['normalize'] and abs(nv - 1) > 1e-9:
                msg = f"snapshot at t={out.tf}: normalize=True but norm {nv}"
        if not msg and timedep is None and Hd is not None:
            realtime = abs(u.real) < 1e-15
            if realtime and nobind:
                Ecur = np.real(np.vdot(v, Hd @ v) / max(nv ** 2, 1e-300))
                if abs(nv - np.linalg.norm(v0)) > 1e-9 and not run['normalize']:
                    msg = f"real-time evolution at t={out.tf}: norm changed from {np.linalg.norm(v0)} to {nv}"
                elif abs(Ecur - E0) > 1e-9 * max(1, abs(E0)):
                    msg = f"real-time evolution at t={out.tf}: energy changed from {E0} to {Ecur}"
            if not msg and full and nobind:
                ref = scipy.linalg.expm(-u * tcur * Hd) @ v0
                exact_norm = (not run['normalize']) and (not run['subtract_E'] or realtime)
                if exact_norm and not run['subtract_E']:
                    err = np.linalg.norm(v - ref) / max(np.linalg.norm(ref), 1e-300)
                else:
                    ph = np.vdot(ref, v)
                    ph = ph / abs(ph) if abs(ph) > 0 else 1.0
                    err = np.linalg.norm(v / max(nv, 1e-300) - ph * ref / max(np.linalg.norm(ref), 1e-300))
                    if exact_norm and abs(nv - np.linalg.norm(ref)) > 1e-8 * max(1, np.linalg.norm(ref)):
                        err = max(err, abs(nv - np.linalg.norm(ref)))
                if err > 1e-8:
                    msg = (f"full manifold, t={out.tf}: evolved state differs from expm(-u t H) psi0 by {err} "
                           f"(method={run['method']}, order={run['order']}, u={u}, dt={run['dt']})")
        acc.ev(repr((run, nyield)), len(idx) >= 3 and msg is None, (run['method'], run['order'], msg is None, full))
        acc.cnt['snapshots_observed'] += 1
        if msg:
            acc.fail(dict(run, snapshot=nyield), msg)
            return None
        if acc.evaluations % 499 == 0:
            acc.sample(dict(run, snapshot=nyield))
    if nyield != expected:
        acc.fail(run, f"tdvp_ yielded {nyield} snapshots, expected {expected}")
    return MG.dense_vec(psi, loc)


def canonical_first(psi):
    """right-canonical form: every site is a right isometry; the first one up to the norm of the state"""
    from .c08 import isometry
    for n in range(1, psi.N):
        if not isometry(psi.A[n], 'first', psi.nr_phys):
            return False
    A = psi.A[0]
    x = yastn.tensordot(A, A.conj(), axes=((1, 2), (1, 2))).to_numpy()
    return psi.pC is None and x.shape == (1, 1) and abs(x[0, 0].imag) < 1e-10 and x[0, 0].real > 0


def _j(u):
    return {'re': u.real, 'im': u.imag} if isinstance(u, complex) else u


def _uj(u):
    return complex(u['re'], u['im']) if isinstance(u, dict) else complex(u)


def base_run(g, hname, **kw):
    run = {'fam': g['fam'], 'sym': g['sym'], 'N': g['N'], 'H': hname, 'times': (0, 0.2), 'dt': 0.1, 'u': _j(1j), 'method': '1site', 'order': '2nd',
           'normalize': True, 'subtract_E': False, 'pre': False, 'yield_initial': False, 'expmv': None, 'kind': g['kind']}
    run.update(kw)
    return run


def run_book(g, loc, N, n, idx, hams, acc):
    """bookkeeping: time grids x dt x yield_initial x methods"""
    hname, H, Hsum, Hd = hams[0]
    for times in TIME_GRIDS:
        for dt in DTS:
            for yi in (False, True):
                for method in ('1site', '2site', '12site'):
                    acc.check_time()
                    psi = MG.random_state(loc, N, n, 2, (acc.seed, 'c10b', loc.fam, loc.sym, N), integer=False, cplx=True)
                    if psi is None:
                        return
                    v0 = MG.dense_vec(psi, loc)
                    v0n = v0 / np.linalg.norm(v0)
                    run = base_run(g, hname, times=times, dt=dt, yield_initial=yi, method=method)
                    observe_run(run, loc, psi, H, Hd, idx, v0n, acc, full=False, nobind=True)
    # contract violations
    psi = MG.random_state(loc, N, n, 2, (acc.seed, 'c10b', loc.fam, loc.sym, N), integer=False, cplx=True)
    for desc, kw in (('dt<=0', dict(dt=0)), ('descending times', dict(times=(0.3, 0.1))), ('2site without opts_svd', dict(method='2site')),
                     ('unknown method', dict(method='3site'))):
        st, r = TC.call(lambda: next(mps.tdvp_(psi, H, **kw)))
        acc.cnt['rejections_checked'] += 1
        if st != 'yerr':
            acc.fail({'fam': g['fam'], 'sym': g['sym'], 'N': N, 'reject': desc}, f"tdvp_ with {desc}: {st} instead of YastnError")


def run_physics(g, loc, N, n, idx, hams, acc):
    """conservation laws away from the full manifold (small bond dimension), Hermitian time-independent generator"""
    for hname, H, Hsum, Hd in hams:
        for D in (1, 2):
            for method, order, pre, sub, nz in itertools.product(('1site', '2site', '12site'), ('2nd', '4th'), (False, True), (False, True), (True, False)):
                if acc.tier == 'quick' and pre and sub:
                    continue
                for Hform in (('single', 'sum') if Hsum is not None and method == '1site' and not pre else ('single',)):
                    for ex in (None, {'hermitian': True, 'tol': 1e-12}, {'hermitian': True, 'ncv': 3, 'tol': 1e-12}):
                        if ex is not None and (order == '4th' or sub):
                            continue
                        if ex is not None and 'ncv' in ex and loc.fam == 'spinful' and not (method == '2site' and D == 1 and not pre and nz):
                            continue      # (recorded known finding: these runs do not terminate; one representative run is kept)
                        acc.check_time()
                        psi = MG.random_state(loc, N, n, D, (acc.seed, 'c10p', loc.fam, loc.sym, N, D), integer=False, cplx=True)
                        if psi is None:
                            continue
                        v0 = MG.dense_vec(psi, loc)
                        psi.canonize_(to='first')
                        v0 = v0 / np.linalg.norm(v0)
                        run = base_run(g, hname, method=method, order=order, pre=pre, subtract_E=sub, normalize=nz, D=D, Hform=Hform, expmv=ex,
                                       times=(0, 0.15, 0.3), dt=0.15)
                        observe_run(run, loc, psi, H if Hform == 'single' else Hsum, Hd, idx, v0, acc, full=False, nobind=True)


def run_exact(g, loc, N, n, idx, hams, acc):
    """full manifold: exactness for every u, order, method, dt"""
    for hname, H, Hsum, Hd in hams:
        for u in US:
            for method, order in itertools.product(('1site', '2site', '12site'), ('2nd', '4th')):
                for dt in (0.35, 0.1):
                    for nz, sub, pre in ((True, False, False), (False, False, True), (False, True, False), (True, True, True)):
                        if acc.tier == 'quick' and dt == 0.1 and (sub or pre):
                            continue
                        acc.check_time()
                        psi, v0 = full_state(loc, N, n, idx, acc.seed)
                        run = base_run(g, hname, u=_j(u), method=method, order=order, dt=dt, normalize=nz, subtract_E=sub, pre=pre, times=(0, 0.35, 0.6))
                        observe_run(run, loc, psi, H, Hd, idx, v0, acc, full=True, nobind=True)


def run_timedep(g, loc, N, n, idx, hams, acc):
    """H(t) = H0 + cos(3t) H1 at full manifold: error vs ODE reference shrinks at the stated order"""
    hname, H, Hsum, Hd = hams[-1]
    if Hsum is None:
        return
    H0, H1 = Hsum
    H0d, H1d = MG.dense_mat(H0, loc), MG.dense_mat(H1, loc)

    def Ht(t):
        return [H0, math.cos(3 * t) * H1]
    T = 0.6
    for u in (1j, 1):
        psi0, v0 = full_state(loc, N, n, idx, acc.seed)
        sol = scipy.integrate.solve_ivp(lambda t, y: -u * ((H0d + math.cos(3 * t) * H1d) @ y), (0, T), v0, method='DOP853', rtol=1e-12, atol=1e-13)
        ref = sol.y[:, -1]
        for method in ('1site', '2site'):
            for order, p in (('2nd', 2), ('4th', 4)):
                errs = []
                for dt in (0.2, 0.1, 0.05):
                    acc.check_time()
                    psi, _ = full_state(loc, N, n, idx, acc.seed)
                    run = base_run(g, 'H0+cos(3t)H1', u=_j(u), method=method, order=order, dt=dt, normalize=False, times=(0, T))
                    v = observe_run(run, loc, psi, Ht, None, idx, v0, acc, full=False, nobind=True, timedep=True)
                    if v is None:
                        errs = None
                        break
                    errs.append(np.linalg.norm(v - ref) / np.linalg.norm(ref))
                if errs is None:
                    continue
                case = {'fam': g['fam'], 'sym': g['sym'], 'N': N, 'kind': 'timedep', 'u': _j(u), 'method': method, 'order': order, 'errors': errs}
                msg = None
                for e1, e2 in zip(errs, errs[1:]):
                    if e1 > 1e-8 and e2 > 1e-8 and e1 / e2 < 2 ** (p - 0.7):
                        msg = (f"time-dependent generator, order {order}: halving dt reduces the error only by {e1 / e2:.2f} "
                               f"(errors {errs}), expected about {2 ** p}")
                acc.ev(repr(case), msg is None, ('timedep', order, msg is None))
                acc.cnt['order_checks'] += 1
                if msg:
                    acc.fail(case, msg)


def replay(case):
    acc = _Mini()
    acc.seed = case.get('seed', 0)
    g = {'fam': case['fam'], 'sym': case['sym'], 'N': case['N'], 'kind': case.get('kind', 'exact')}
    run_group(g, acc)
    keys = [k for k in case if k not in ('seed', 'snapshot', 'errors')]
    def norm(v):
        return list(v) if isinstance(v, tuple) else v
    return [v['msg'] for v in acc.violations if all(norm(v['case'].get(k)) == norm(case.get(k)) for k in keys)][:3]


class _Mini:
    def __init__(self):
        self.violations, self.cnt = [], collections.Counter()
        self.evaluations = 0
        self.tier, self.seed = 'quick', 0

    def ev(self, *a, **k):
        self.evaluations += 1

    def fail(self, case, msg, key=None):
        self.violations.append({'case': case, 'msg': msg})

    def sample(self, c):
        pass

    def check_time(self):
        pass


def finalize(summary, tier):
    errs = []
    c = summary['cnt']
    if c.get('snapshots_observed', 0) < 3000 or c.get('order_checks', 0) < 10 or c.get('rejections_checked', 0) < 10:
        errs.append(f"vacuity: {dict(c)}")
    return errs
