"""
C06 - MPS/MPO algebra agrees with the states and operators it represents.
Explicit-state BFS over expression trees on real MPS/MPO objects with dense vectors/matrices computed in lockstep by
NumPy; plus measurement actions (measure_overlap, measure_mpo incl. sums, on_bra, PBC; vdot; norm), zipper and
variational compression without truncation, product states and mps/mpo_from_tensor.
"""
import collections
import itertools

import numpy as np
import yastn
import yastn.tn.mps as mps

from vmc.engine.runner import h64
from vmc.gen import mpsgen as MG
from vmc.models import jw as JW
from . import _tcommon as TC

PROPERTY_ID = 'C06'
LEVEL = 'model_checking'
RULE = ("BFS over expression trees: a state = (MPS/MPO object, dense array computed by NumPy in lockstep); a transition = one "
        "production (unary/binary algebra) or measurement checked against the dense object; states merged on the bytes of the "
        "dense array; non-trivial = state with non-zero norm and bond dimension >= 2 somewhere")
ASSUMPTIONS = ["to_tensor() is the read-out (central blocks are owned by C08)", "tolerance 1e-11 relative (exact for integer data)"]
BUDGET = {'quick': 170, 'thorough': 1200}
TOL = 1e-11
SCALARS = [2, -1, 0.5j, 1 - 1j, 0]


def groups(tier, seed):
    gs = []
    Ns = (1, 2, 3, 4, 5) if tier == 'quick' else (1, 2, 3, 4, 5, 6)
    for fam, syms in MG.FAMILIES.items():
        for sym in syms:
            for N in Ns:
                if N * {'spin12': 1, 'spinless': 1, 'qdit2': 1, 'spin1': 1.6, 'qdit3': 1.6, 'tJ': 1.6, 'spinful': 2}[fam] > (5.2 if tier == 'quick' else 6.5):
                    continue
                gs.append({'fam': fam, 'sym': sym, 'N': N, 'depth': 2 if tier == 'quick' else (3 if N <= 3 else 2), 'level': 1 if N <= 3 else 2})
    return gs


def close(a, b, scale=None):
    a, b = np.asarray(a), np.asarray(b)
    if a.shape != b.shape:
        return False
    sc = max(1.0, float(np.max(np.abs(b))) if b.size else 1.0) if scale is None else scale
    return bool(np.all(np.abs(a - b) <= TOL * sc))


def leaves(loc, N, seed, tier):
    """list of (name, object, dense)"""
    out = []
    charges = loc.charges_N(N)
    mid = charges[len(charges) // 2]
    for ci, n in enumerate([mid] + ([charges[0]] if len(charges) > 1 else [])):
        for D in ((1, 3) if ci == 0 else (2,)):
            psi = MG.random_state(loc, N, n, D, (seed, 'mps', loc.fam, loc.sym, N, n, D), integer=True, cplx=(D == 3))
            if psi is not None:
                out.append((f'psi[n={n},D={D}]', psi))
    if loc.config.sym.NSYM == 0 or True:
        psi = MG.random_state(loc, N, mid, 2, (seed, 'gen', loc.fam, loc.sym, N), integer=False)
        if psi is not None:
            out.append(('psi_generic', psi))
    out += MG.product_states(loc, N)[:2]
    O1 = MG.random_operator(loc, N, 2, (seed, 'mpo', loc.fam, loc.sym, N))
    out.append(('O_rand', O1))
    out.append(('I', loc.I_mpo(N)))
    # generated MPO: sum of on-site terms and one two-site term
    names = [k for k in loc.O if k != 'I']
    if names:
        diag_like = [k for k in names if not any(loc.O[k].n)]
        terms = []
        for i in range(N):
            if diag_like:
                terms.append(mps.Hterm(0.5 + i, [i], [loc.O[diag_like[0]]]))
        ch = [k for k in names if any(loc.O[k].n)]
        if N >= 2 and ch:
            a = ch[0]
            b = next((k for k in ch if tuple(loc.O[k].n) == tuple(loc.config.sym.add_charges(loc.O[a].n, new_signature=-1))), None)
            if b:
                terms.append(mps.Hterm(-1.0, [0, N - 1], [loc.O[a], loc.O[b]]))
                terms.append(mps.Hterm(-1.0, [N - 1, 0], [loc.O[a], loc.O[b]]))
        if terms:
            out.append(('H_gen', mps.generate_mpo(loc.I_mpo(N), terms)))
        if ch:   # an MPO with non-zero total charge and a state it maps the middle sector to
            a = ch[0]
            st, Oc = TC.call(lambda: mps.generate_mpo(loc.I_mpo(N), [mps.Hterm(1 + 0.5 * i, [i], [loc.O[a]]) for i in range(N)]))
            if st == 'ok':
                out.append(('O_charged', Oc))
            for sgn in (1, -1):
                n2 = tuple(loc.config.sym.add_charges(mid, loc.O[a].n, signatures=(1, sgn)))
                if n2 in [tuple(c) for c in charges] and n2 != tuple(mid):
                    psi = MG.random_state(loc, N, n2, 2, (seed, 'mpsq', loc.fam, loc.sym, N, n2), integer=True)
                    if psi is not None:
                        out.append((f'psi[n={n2},D=2]', psi))
    res = []
    for name, x in out:
        st, d = TC.call(MG.dense_of, x, loc)
        if st == 'ok':
            res.append((name, x, d))
    return res


def productions(states, loc):
    """yield (description, thunk, dense result)"""
    for ia, (na, a, da) in enumerate(states):
        for c in SCALARS:
            yield f'{c}*({na})', (lambda a=a, c=c: c * a), c * da
        yield f'({na})*2', (lambda a=a: a * 2), 2 * da
        yield f'({na})/(1-1j)', (lambda a=a: a / (1 - 1j)), da / (1 - 1j)
        yield f'-({na})', (lambda a=a: -a), -da
        yield f'({na}).conj()', (lambda a=a: a.conj()), da.conj()
        yield f'({na}).copy()', (lambda a=a: a.copy()), da
        yield f'({na}).T', (lambda a=a: a.T), (da if a.nr_phys == 1 else da.T)
        yield f'({na}).H', (lambda a=a: a.H), (da.conj() if a.nr_phys == 1 else da.conj().T)
        yield f'({na}).reverse_sites()', (lambda a=a: a.reverse_sites()), reverse_dense(da, a.N, loc.d, a.nr_phys)
        yield f'np.float64(3)*({na})', (lambda a=a: np.float64(3) * a), 3 * da
        for ib, (nb, b, db) in enumerate(states):
            if a.nr_phys == b.nr_phys and da.shape == db.shape and same_sector(a, b):
                if ia <= ib:
                    yield f'({na})+({nb})', (lambda a=a, b=b: a + b), da + db
                yield f'({na})-({nb})', (lambda a=a, b=b: a - b), da - db
                if ia < ib:
                    yield f'add({na},{nb},{na};[2,-1,0.5j])', (lambda a=a, b=b: mps.add(a, b, a, amplitudes=[2, -1, 0.5j])), 2 * da - db + 0.5j * da
            if a.nr_phys == 2:
                yield f'({na})@({nb})', (lambda a=a, b=b: a @ b), da @ db
                if b.nr_phys == 1:
                    yield f'multiply({na},{nb},meta)', (lambda a=a, b=b: mps.multiply(a, b, mode='meta')), da @ db


def same_sector(a, b):
    """identical outer virtual legs (needed for sums)"""
    try:
        return a.virtual_leg('first') == b.virtual_leg('first') and a.virtual_leg('last') == b.virtual_leg('last')
    except Exception:
        return False


def charge_of(x):
    try:
        # total charge; signature of the physical legs; charges of the two boundary virtual legs (yastn keeps them as legs:
        # the same vector with its charge on the first or on the last virtual leg - e.g. after reverse_sites() - lives in a
        # different space, so overlaps between the two layouts are not defined)
        return tuple(x.to_tensor().n), (tuple(x.A[0].get_legs(1).s for _ in range(1)), x.virtual_leg('first').t, x.virtual_leg('last').t)
    except Exception:
        return None


def reverse_dense(d, N, dloc, nr_phys):
    if nr_phys == 1:
        return d.reshape((dloc,) * N).transpose(tuple(range(N))[::-1]).reshape(-1)
    M = d.reshape((dloc,) * (2 * N))
    perm = tuple(range(N))[::-1] + tuple(range(N, 2 * N))[::-1]
    return M.transpose(perm).reshape(d.shape)


def measurements(states, loc, acc, case_base):
    """overlaps and expectation values between all reached states"""
    vecs = [(n, x, d) for n, x, d in states if x.nr_phys == 1]
    opsl = [(n, x, d) for n, x, d in states if x.nr_phys == 2]
    # states that vanish by cancellation (x - x) are represented by non-zero tensors: matrix elements are then round-off of
    # the size of the cancelling terms, for which the dense zero offers no scale - they are compared through their norm only
    for (na, a, da) in vecs:
        if not np.any(da):
            acc.cnt['zero_states_norm_only'] += 1
            _num(acc, case_base, f'norm({na}) (zero state)', lambda a=a: float(a.norm()) * 1e-6, 0.0)
    vecs = [(n, x, d) for n, x, d in vecs if np.any(d)]
    for (na, a, da) in vecs:
        acc.check_time()
        _num(acc, case_base, f'norm({na})', lambda a=a: a.norm(), np.linalg.norm(da))
        for (nb, b, db) in vecs:
            ca, cb = charge_of(a), charge_of(b)
            if ca is None or cb is None or ca[1] != cb[1]:
                continue        # bra/ket on different (dual) legs: not a defined overlap
            if ca[0] != cb[0]:
                # different charge sectors: overlap is zero; operators of non-zero charge may connect them
                _num(acc, case_base, f'<{na}|{nb}> (different sectors)', lambda a=a, b=b: mps.measure_overlap(a, b), 0.0)
                for (no, o, do) in opsl:
                    if do.shape[0] != da.shape[0] or not _standard_layout(o) or '.T' in no or '.H' in no or 'conj' in no:
                        continue     # boundary legs of bra, operator and ket must be compatible (yastn keeps them as legs)
                    ref = np.vdot(da, do @ db)
                    if abs(ref) > 1e-9:
                        acc.cnt['charged_matrix_elements'] += 1
                        _num(acc, case_base, f'<{na}|{no}|{nb}> (charged)', lambda a=a, o=o, b=b: mps.measure_mpo(a, o, b), ref, strict=True)
                        _num(acc, case_base, f'vdot({na},{no},{nb}) (charged)', lambda a=a, o=o, b=b: mps.vdot(a, o, b), ref, strict=True)
                continue
            _num(acc, case_base, f'<{na}|{nb}>', lambda a=a, b=b: mps.measure_overlap(a, b), np.vdot(da, db))
            _num(acc, case_base, f'vdot({na},{nb})', lambda a=a, b=b: mps.vdot(a, b), np.vdot(da, db))
            for (no, o, do) in opsl:
                if do.shape[0] != da.shape[0]:
                    continue
                ref = np.vdot(da, do @ db)
                _num(acc, case_base, f'<{na}|{no}|{nb}>', lambda a=a, o=o, b=b: mps.measure_mpo(a, o, b), ref, zero_ok_if_charged=o)
                _num(acc, case_base, f'vdot({na},{no},{nb})', lambda a=a, o=o, b=b: mps.vdot(a, o, b), ref, zero_ok_if_charged=o)
        for (no, o, do) in opsl[:3]:
            for (no2, o2, do2) in opsl[:3]:
                if do.shape[0] != da.shape[0] or do2.shape != do.shape:
                    continue
                ref = np.vdot(da, (do + do2) @ da)
                _num(acc, case_base, f'<{na}|[{no},{no2}]|{na}>', lambda a=a, o=o, o2=o2: mps.measure_mpo(a, [o, o2], a), ref)
    # operator-operator: <A|B> = Tr(A^dag B), <A|O|B> = Tr(A^dag O B), on_bra: Tr(A^dag B O)
    for (na, a, da) in opsl[:3]:
        for (nb, b, db) in opsl[:3]:
            if da.shape != db.shape or not same_sector(a, b):
                continue
            _num(acc, case_base, f'<{na}|{nb}> (MPO)', lambda a=a, b=b: mps.measure_overlap(a, b), np.trace(da.conj().T @ db))
            for (no, o, do) in opsl[:3]:
                if any(o.virtual_leg('first').t[0]) if o.virtual_leg('first').t else False:
                    continue
                _num(acc, case_base, f'<{na}|{no}|{nb}> (MPO)', lambda a=a, o=o, b=b: mps.measure_mpo(a, o, b), np.trace(da.conj().T @ do @ db))
                _num(acc, case_base, f'<{na}|{no}.on_bra()|{nb}> (MPO)', lambda a=a, o=o, b=b: mps.measure_mpo(a, o.on_bra(), b),
                     np.trace(da.conj().T @ db @ do))


def _standard_layout(o):
    """the total charge of the MPO leaves through the first virtual leg (as produced by generate_mpo)"""
    leg = o.virtual_leg('last')
    return all(not any(t) for t in leg.t)


def charged_layouts(states, loc, acc, case_base):
    """operators of non-zero charge in every layout reached (charge on the first or the last virtual leg): <X b|X|b> with
    the bra built by applying the operator, so that all boundary legs are compatible"""
    vecs = [(n, x, d) for n, x, d in states if x.nr_phys == 1][:6]
    opsl = [(n, x, d) for n, x, d in states if x.nr_phys == 2 and 'O_charged' in n and not any(c in n for c in '*/+@')]
    for (no, o, do) in opsl:
        for (nb, b, db) in vecs:
            if do.shape[0] != db.shape[0]:
                continue
            st, phi = TC.call(lambda: o @ b)
            if st != 'ok':
                continue
            st, dphi = TC.call(MG.dense_of, phi, loc)
            if st != 'ok' or not close(dphi, do @ db):
                acc.fail(dict(case_base, expr=f'({no}) @ ({nb})'), f"({no}) @ ({nb}): dense object differs from the NumPy expression")
                continue
            ref = np.vdot(dphi, do @ db)
            if abs(ref) > 1e-9:
                acc.cnt['charged_layout_elements'] += 1
                _num(acc, case_base, f'<({no})@({nb})|{no}|{nb}>', lambda: mps.measure_mpo(phi, o, b), ref, strict=True)
                _num(acc, case_base, f'<({no})@({nb})|({no})@({nb})>', lambda: mps.measure_overlap(phi, phi), ref, strict=True)


def _num(acc, case_base, desc, thunk, ref, zero_ok_if_charged=None, strict=False):
    st, v = TC.call(thunk)
    acc.transitions += 1
    acc.ev(None, False, ('measure', st))
    acc.cnt['measurements'] += 1
    if st == 'yerr' and strict:
        acc.fail(dict(case_base, measure=desc), f"{desc} rejected ({v}) although the dense matrix element is {ref}")
        return
    if st == 'yerr':
        acc.cnt['measure_rejected'] += 1
        return
    if st != 'ok':
        acc.fail(dict(case_base, measure=desc), f"{desc} raised {v}")
        return
    sc = max(1.0, abs(ref))
    if abs(complex(v) - complex(ref)) > TOL * sc * 10:
        acc.fail(dict(case_base, measure=desc), f"{desc} = {v}, dense reference {ref}")


def run_group(g, acc):
    loc = MG.Local(g['fam'], g['sym'])
    N = g['N']
    case_base = {'fam': g['fam'], 'sym': g['sym'], 'N': N}
    L = leaves(loc, N, acc.seed, acc.tier)
    seen = {}
    states = []
    for name, x, d in L:
        k = h64(d.tobytes() + bytes([x.nr_phys]))
        if k not in seen:
            seen[k] = name
            states.append((name, x, d))
            acc.states += 1
    # construction clauses: product states and from_tensor round trips
    construction(loc, N, L, acc, case_base)
    level_states = list(states)
    for depth in range(1, g['depth'] + 1):
        new = []
        pool = level_states if depth == 1 else level_states[: (14 if acc.tier == 'quick' else 16)]
        for desc, thunk, dref in productions(pool, loc):
            acc.check_time()
            st, y = TC.call(thunk)
            acc.transitions += 1
            acc.ev(None, False, ('prod', st))
            if st == 'yerr':
                acc.cnt['rejected_by_contract'] += 1
                continue
            if st != 'ok':
                acc.fail(dict(case_base, expr=desc), f"{desc} raised {y}")
                continue
            st2, dy = TC.call(MG.dense_of, y, loc)
            if st2 != 'ok':
                acc.fail(dict(case_base, expr=desc), f"to_tensor of {desc}: {dy}")
                continue
            if not close(dy, dref):
                acc.fail(dict(case_base, expr=desc), f"{desc}: dense object differs from the NumPy expression (max diff "
                         f"{np.max(np.abs(dy - dref)) if dy.shape == dref.shape else 'shape'})")
                continue
            k = h64(np.round(dref, 9).tobytes() + bytes([y.nr_phys]))
            if k not in seen:
                seen[k] = desc
                acc.states += 1
                if np.linalg.norm(dref) > 0 and max(y.get_bond_dimensions()) >= 2:
                    acc.nontrivial.add(k)
                new.append((desc, y, dref))
                if acc.states % 53 == 0:
                    acc.sample(dict(case_base, expr=desc))
        level_states = new
        states += new
    meas_states = states[: (20 if acc.tier == 'quick' else 24)]
    measurements(meas_states, loc, acc, case_base)
    charged_layouts(states, loc, acc, case_base)
    zipper_compression(loc, N, states, acc, case_base)
    pbc(loc, N, states, acc, case_base)
    rejections(loc, N, states, acc, case_base)


def construction(loc, N, L, acc, case_base):
    sp = loc.space
    # product_mps of basis vectors equals the Kronecker product
    for name, psi in MG.product_states(loc, N):
        d = MG.dense_vec(psi, loc)
        acc.transitions += 1
        if abs(np.linalg.norm(d) - 1) > 1e-12 or np.count_nonzero(np.abs(d) > 1e-12) != 1:
            acc.fail(dict(case_base, expr=name), f"product state {name} is not a single basis vector")
    # from_tensor round trips (every canonize option) and compatibility with a conventionally built state
    for name, x, d in L:
        if np.linalg.norm(d) < 1e-12:
            acc.cnt['from_tensor_skipped_zero_state'] += 1
            continue
        if x.nr_phys == 1:
            for can in ('first', 'last'):
                st, y = TC.call(lambda: mps.mps_from_tensor(x.to_tensor(), canonize=can))
                acc.transitions += 1
                if st != 'ok':
                    acc.fail(dict(case_base, expr=f'mps_from_tensor({name})'), f"mps_from_tensor({name}, canonize={can}): {y}")
                    continue
                dy = MG.dense_vec(y, loc)
                if not close(dy, d):
                    acc.fail(dict(case_base, expr=f'mps_from_tensor({name})'), f"mps_from_tensor({name}, canonize={can}) represents a different vector")
                    continue
                ov = TC.call(lambda: mps.measure_overlap(x, y))
                ref = np.vdot(d, d)
                if ov[0] != 'ok' or abs(ov[1] - ref) > TOL * max(1, abs(ref)) * 10:
                    acc.fail(dict(case_base, expr=f'<{name}|mps_from_tensor({name})>'),
                             f"overlap of {name} with mps_from_tensor of its own tensor = {ov[1]}, expected {ref}")
                dd = TC.call(lambda: (x - y).norm())
                if dd[0] != 'ok' or abs(dd[1]) > 1e-9 * max(1, np.linalg.norm(d)):
                    acc.fail(dict(case_base, expr=f'{name} - mps_from_tensor({name})'), f"|x - mps_from_tensor(x.to_tensor())| = {dd[1]}")
        else:
            for can in ('balance', 'first', 'last'):
                st, y = TC.call(lambda: mps.mpo_from_tensor(x.to_tensor(), canonize=can))
                acc.transitions += 1
                if st != 'ok':
                    acc.fail(dict(case_base, expr=f'mpo_from_tensor({name})'), f"mpo_from_tensor({name}, canonize={can}): {y}")
                    continue
                if not close(MG.dense_mat(y, loc), d):
                    acc.fail(dict(case_base, expr=f'mpo_from_tensor({name})'), f"mpo_from_tensor({name}, canonize={can}) represents a different operator")
                    continue
                dd = TC.call(lambda: (x - y).norm())
                if dd[0] != 'ok' or abs(dd[1]) > 1e-9 * max(1, np.linalg.norm(d)):
                    acc.fail(dict(case_base, expr=f'{name} - mpo_from_tensor({name})'), f"|O - mpo_from_tensor(O.to_tensor())| = {dd[1]}")


def zipper_compression(loc, N, states, acc, case_base):
    vecs = [(n, x, d) for n, x, d in states if x.nr_phys == 1 and np.linalg.norm(d) > 1e-9][:4]
    opsl = [(n, x, d) for n, x, d in states if x.nr_phys == 2 and np.linalg.norm(d) > 1e-9][:3]
    for (no, o, do) in opsl:
        for (nv, v, dv) in vecs:
            if do.shape[1] != dv.shape[0]:
                continue
            ref = do @ dv
            nr = np.linalg.norm(ref)
            if nr < 1e-9:
                continue
            for normalize in (True, False):
                acc.check_time()
                desc = f'zipper({no},{nv},normalize={normalize})'
                st, z = TC.call(lambda: mps.zipper(o, v, opts_svd={'tol': 1e-14}, normalize=normalize))
                acc.transitions += 1
                if st == 'yerr':
                    acc.cnt['rejected_by_contract'] += 1
                    continue
                if st != 'ok':
                    acc.fail(dict(case_base, expr=desc), f"{desc} raised {z}")
                    continue
                dz = MG.dense_vec(z, loc)
                target = ref / nr if normalize else ref
                if not close(dz, target, scale=max(1.0, nr)) and not close(-dz, target, scale=max(1.0, nr)):
                    acc.fail(dict(case_base, expr=desc), f"{desc} differs from the exact product (|diff| = {np.linalg.norm(dz - target)})")
                    continue
                acc.cnt['zipper_ok'] += 1
                for method in ('1site', '2site'):
                    desc2 = f'compression_({no}@{nv}, {method}, normalize={normalize})'
                    psi = z.copy()
                    if not normalize:
                        psi.factor = 1
                    st, out = TC.call(lambda: mps.compression_(psi, [o, v], method=method, max_sweeps=4, normalize=normalize,
                                                              opts_svd={'tol': 1e-14}))
                    acc.transitions += 1
                    if st != 'ok':
                        if st == 'exc':
                            acc.fail(dict(case_base, expr=desc2), f"{desc2} raised {out}")
                        continue
                    dp = MG.dense_vec(psi, loc)
                    if not close(dp, target, scale=max(1.0, nr) * 100) and not close(-dp, target, scale=max(1.0, nr) * 100):
                        acc.fail(dict(case_base, expr=desc2), f"{desc2} differs from the exact product (|diff| = {np.linalg.norm(dp - target)})")
                    else:
                        acc.cnt['compression_ok'] += 1


def pbc(loc, N, states, acc, case_base):
    """periodic MPO: Ising-like ring built by hand for spin-1/2 dense/Z2; measure_mpo and to_tensor"""
    if loc.fam != 'spin12' or N < 3 or loc.sym not in ('dense', 'Z2'):
        return
    O = loc.O
    X, I = O['x'], O['I']
    # H = sum_i X_i X_{i+1} (periodic) as bond-dimension-3 PBC MPO:  W = [[I,0,0],[X,0,0],[0,X,I]] with trace closure is not exact;
    # use the simple translationally invariant ring MPO  W^{ab} with a,b in {0,1}: W^{00}=I, W^{01}=X, W^{10}=X, W^{11}=0 -> Tr(W...W)
    H = mps.Mpo(N, periodic=True)
    Xl = X.add_leg(axis=0, s=-1).add_leg(axis=2, s=1)
    Il = I.add_leg(axis=0, s=-1).add_leg(axis=2, s=1)
    try:
        if loc.sym == 'dense':
            W = yastn.block({(0, 0): Il, (0, 1): Xl, (1, 0): Xl}, common_legs=(1, 3))
        else:
            Xa = X.add_leg(axis=0, s=-1, t=0).add_leg(axis=2, s=1, t=1)
            Xb = X.add_leg(axis=0, s=-1, t=1).add_leg(axis=2, s=1, t=0)
            W = yastn.block({(0, 0): Il, (0, 1): Xa, (1, 0): Xb}, common_legs=(1, 3))
        for n in range(N):
            H[n] = W.copy()
        T = H.to_tensor()
    except Exception as e:
        acc.cnt['pbc_unavailable'] += 1
        return
    M = JW.mpo_like_to_matrix(T, [loc.space] * N)
    # reference: Tr over 2x2 virtual ring
    x = loc.O['x'].to_numpy() if loc.sym == 'dense' else loc.O['x'].to_numpy(legs={0: loc.space, 1: loc.space.conj()})
    e = np.eye(2)
    Wd = {(0, 0): e, (0, 1): x, (1, 0): x, (1, 1): np.zeros((2, 2))}
    ref = np.zeros((2 ** N, 2 ** N))
    for idx in itertools.product((0, 1), repeat=N):
        m = np.array([[1.0]])
        for k in range(N):
            m = np.kron(m, Wd[(idx[k], idx[(k + 1) % N])])
        ref += m
    acc.transitions += 1
    if not close(M, ref):
        acc.fail(dict(case_base, expr='MpoPBC.to_tensor'), "MpoPBC.to_tensor differs from the trace over the virtual ring")
        return
    # a second periodic MPO made of the tensors of a generated open-boundary MPO of a translationally invariant ring
    # Hamiltonian (virtual legs as generate_mpo builds them, which zipper needs):  sum_n -z_n - 0.7 x_n x_{n+1 mod N}
    st, H2 = TC.call(lambda: _ring_mpo(loc, N))
    if st == 'ok':
        spaces = [loc.space] * N
        ref2 = sum(-1.0 * JW.jw(O['z'], n, spaces, loc.config) - 0.7 * JW.jw(O['x'], n, spaces, loc.config) @ JW.jw(O['x'], (n + 1) % N, spaces, loc.config)
                   for n in range(N))
        st, M2 = TC.call(lambda: JW.mpo_like_to_matrix(H2.to_tensor(), spaces))
        acc.transitions += 1
        if st != 'ok' or not close(M2, ref2):
            acc.fail(dict(case_base, expr='MpoPBC(ring).to_tensor'), f"periodic MPO built from generate_mpo tensors differs from the ring Hamiltonian ({st})")
        else:
            H, ref = H2, ref2
    for (nv, v, dv) in [(n, x_, d) for n, x_, d in states if x_.nr_phys == 1][:4]:
        _num(acc, case_base, f'<{nv}|H_pbc|{nv}>', lambda v=v: mps.measure_mpo(v, H, v), np.vdot(dv, ref @ dv))
        # scalar multiples of the periodic MPO (the scalar lives in .factor) and their application by zipper / @
        for c in (2.5, -0.5, 1):
            Hc = c * H
            st, Tc = TC.call(lambda: JW.mpo_like_to_matrix(Hc.to_tensor(), [loc.space] * N))
            acc.transitions += 1
            if st != 'ok' or not close(Tc, c * ref):
                acc.fail(dict(case_base, expr=f'{c}*H_pbc'), f"{c} * H_pbc: to_tensor differs from the scaled ring operator ({st})")
                continue
            _num(acc, case_base, f'<{nv}|{c}*H_pbc|{nv}>', lambda v=v, Hc=Hc: mps.measure_mpo(v, Hc, v), c * np.vdot(dv, ref @ dv))
            if np.linalg.norm(ref @ dv) < 1e-9:
                continue
            for nz in (False, True):
                st, w = TC.call(lambda: mps.zipper(Hc, v, opts_svd={'tol': 1e-14}, normalize=nz))
                acc.transitions += 1
                if st == 'yerr':
                    acc.cnt['pbc_zipper_rejected'] += 1
                    continue
                if st != 'ok':
                    acc.fail(dict(case_base, expr=f'zipper({c}*H_pbc, {nv}, normalize={nz})'), f"zipper({c}*H_pbc, {nv}, normalize={nz}): {st}: {w}")
                    continue
                dw = MG.dense_of(w, loc)
                target = c * (ref @ dv)
                if nz:
                    target = target / np.linalg.norm(target)
                    # normalize=True fixes the vector up to nothing but its norm
                acc.cnt['pbc_zipper'] += 1
                if not close(dw, target, scale=max(1.0, float(np.abs(target).max()))):
                    acc.fail(dict(case_base, expr=f'zipper({c}*H_pbc, {nv}, normalize={nz})'),
                             f"zipper({c}*H_pbc, {nv}, normalize={nz}): dense vector differs from ({c} H) v{' / |.|' if nz else ''} "
                             f"(max diff {np.abs(dw - target).max():.3e})")
    acc.cnt['pbc_checked'] += 1


def _ring_mpo(loc, N):
    O = loc.O
    terms = []
    for n in range(N):
        terms.append(mps.Hterm(-1.0, [n], [O['z']]))
        terms.append(mps.Hterm(-0.7, [n, (n + 1) % N], [O['x'], O['x']]))
    Hobc = mps.generate_mpo(loc.I_mpo(N), terms)
    H = mps.Mpo(N, periodic=True)
    dn = N // 2
    for n in range(N):
        H[(n + dn) % N] = Hobc[n].copy()
    return H


def rejections(loc, N, states, acc, case_base):
    vec = next((x for n, x, d in states if x.nr_phys == 1), None)
    op = next((x for n, x, d in states if x.nr_phys == 2), None)
    if vec is None or op is None:
        return
    checks = [('MPS @ MPS', lambda: vec @ vec), ('MPS @ MPO', lambda: vec @ op), ('MPS + MPO', lambda: vec + op)]
    if N >= 2:
        loc2 = loc
        short = MG.random_state(loc, N - 1, loc.charges_N(N - 1)[0], 1, ('short', N))
        if short is not None:
            checks.append(('unequal N', lambda: vec + short))
            checks.append(('unequal N product', lambda: op @ short))
        c = vec.copy()
        c.canonize_(to='last')
        c.orthogonalize_site_(n=0, to='last')
        if c.pC is not None:
            checks.append(('central block in add', lambda: c + vec))
            checks.append(('central block in multiply', lambda: op @ c))
    for desc, f in checks:
        st, r = TC.call(f)
        acc.transitions += 1
        acc.cnt['rejections_checked'] += 1
        if st == 'ok':
            acc.fail(dict(case_base, expr=desc), f"{desc} was computed instead of being rejected with YastnError")
        elif st == 'exc':
            acc.fail(dict(case_base, expr=desc), f"{desc} raised {r} instead of YastnError")


def replay(case):
    g = {'fam': case['fam'], 'sym': case['sym'], 'N': case['N'], 'depth': 2}
    acc = _Mini()
    acc.seed = case.get('seed', 0)
    run_group(g, acc)
    want = case.get('expr') or case.get('measure')
    msgs = [v['msg'] for v in acc.violations if (v['case'].get('expr') or v['case'].get('measure')) == want]
    return msgs[:3] if msgs else [v['msg'] for v in acc.violations][:0]


class _Mini:
    def __init__(self):
        self.violations, self.cnt = [], collections.Counter()
        self.evaluations = self.states = self.transitions = 0
        self.tier, self.seed = 'quick', 0
        self.nontrivial, self.outcomes = set(), set()

    def ev(self, *a, **k):
        pass

    def fail(self, case, msg, key=None):
        self.violations.append({'case': case, 'msg': msg})

    def sample(self, c):
        pass

    def check_time(self):
        pass


def finalize(summary, tier):
    errs = []
    c = summary['cnt']
    if summary['states'] < 1000 or c.get('measurements', 0) < 2000 or c.get('zipper_ok', 0) < 20 or c.get('compression_ok', 0) < 20:
        errs.append(f"vacuity: states={summary['states']} {dict(c)}")
    return errs
