"""
C03 - Leg fusion is a faithful, reversible change of basis.

(a) single tensors: every tensor of a bounded pool x every `axes` argument of fuse_legs (all ordered set partitions)
    x mode {hard, meta}, up to 3 nested levels with all mode mixtures: unfusing restores the tensor (legs with
    history and dense values, bitwise), the integer norm is unchanged.
(b) pairs fused by the same recipe from legs with equal / overlapping / nested / disjoint sector content:
    tensordot, +, -, vdot, trace over fused legs equal the same operation over the original legs (bitwise).
(c) incompatible fusions (tree shape, product/sum kind, signature, dimension of a common charge) must raise YastnError.
(d) blocking: block-matrix identities, nested vs one-step blocking.
"""
import itertools

import numpy as np
import yastn

from vmc.gen import configs as GC, legs as GL, tensors as GT, programs as P
from vmc.models import dense as MD, groups as G
from . import _tcommon as TC

PROPERTY_ID = 'C03'
LEVEL = 'model_checking'
RULE = ("explicit enumeration of fusion programs (1..3 nested fuse_legs calls with every axes argument and mode mixture) on "
        "a bounded tensor pool, and of operand pairs fused by the same program; a state = tensor after k fusion levels; "
        "a transition = one fuse/unfuse/operation call; non-trivial = operand has >= 2 blocks; distinct by case hash")
ASSUMPTIONS = ["order of states inside a fused sector is an implementation choice: values are compared after unfusing",
               "NumPy is the dense reference; integer data"]
BUDGET = {'quick': 170, 'thorough': 1200}


def flat(g):
    if isinstance(g, int):
        return [g]
    out = []
    for v in g:
        out += flat(v)
    return out


def apply_axes(state, axes):
    """state: list of nested groups of original axis ids; returns new state after fuse_legs(axes)"""
    out = []
    for g in axes:
        if isinstance(g, int):
            out.append(state[g])
        else:
            out.append([state[i] for i in g])
    return out


def tup(axes):
    return tuple(tuple(g) if isinstance(g, list) else g for g in axes)


class UnfuseFailed(MD.ShadowError):
    pass


def fully_unfuse(x, maxit=8):
    try:
        return _fully_unfuse(x, maxit)
    except yastn.YastnError:
        raise
    except Exception as e:
        raise UnfuseFailed(f"unfuse_legs of the result raised {type(e).__name__}: {e} (result is malformed)")


def _fully_unfuse(x, maxit=8):
    for _ in range(maxit):
        legs = x.get_legs() if x.ndim else ()
        fa = [i for i, l in enumerate(legs) if l.is_fused() and l.history()[0] in 'pm']
        if not fa:
            return x
        x = x.unfuse_legs(axes=tuple(fa))
    return x


def groups(tier, seed):
    gs = []
    for sym in GC.SYMS:
        for r in (2, 3, 4):
            P_ = {2: 1, 3: 2, 4: 4}[r]
            for part in range(P_):
                gs.append({'kind': 'single', 'sym': sym, 'rank': r, 'part': part, 'parts': P_, 'level': 1 if r <= 3 else 2})
        gs.append({'kind': 'single', 'sym': sym, 'rank': 5, 'part': 0, 'parts': 1, 'level': 2})
        gs.append({'kind': 'single', 'sym': sym, 'rank': 7, 'part': 0, 'parts': 1, 'level': 2})
        for part in range(4):
            gs.append({'kind': 'pairs', 'sym': sym, 'level': 1, 'part': part, 'parts': 4})
        gs.append({'kind': 'incompatible', 'sym': sym, 'level': 1})
        gs.append({'kind': 'block', 'sym': sym, 'level': 1})
    return gs


def run_group(g, acc):
    cfg = GC.make(g['sym'])
    {'single': run_single, 'pairs': run_pairs, 'incompatible': run_incompatible, 'block': run_block}[g['kind']](g, cfg, acc)


# ------------------------------------------------------------------------------------------------
# (a) single tensors

def single_pool(sym, r, tier):
    ms = GL.msize(sym, 2)
    nch = min(2, len(GL.CHARGES[sym]))
    if r == 7:   # three fused groups built from different numbers of legs (3, 2, 2): needed to tell a permutation from its inverse
        yield {'s': [1, -1, 1, -1, 1, -1, 1], 'm': [0] * 7, 'n': nch - 1, 'drop': None, 'var': ['fresh']}
        return
    if r == 5:
        for n in range(nch):
            for var in (['fresh'], ['lazy', [4, 3, 2, 1, 0]]):
                yield {'s': [1, -1, 1, -1, 1], 'm': [i % ms for i in range(5)], 'n': n, 'drop': [0] if n == 0 else None, 'var': var}
        return
    sigs = {2: [[1, -1], [1, 1]], 3: [[1, -1, 1], [-1, -1, 1]], 4: [[1, 1, -1, -1], [1, -1, 1, -1]]}[r]
    for sig in sigs:
        for m in ([[i % ms for i in range(r)], [0] * r] if ms > 1 else [[0] * r]):
            for n in range(nch):
                for drop in (None, [0]):
                    for var in (['fresh'], ['lazy', list(range(r))[::-1]]):
                        if tier == 'quick' and r == 4 and (drop or n == 0) and var[0] == 'lazy':
                            continue
                        yield {'s': sig, 'm': m, 'n': n, 'drop': drop, 'var': var}


ARGS5 = [[[0, 1], [2, 3, 4]], [[2, 0], [1, 4, 3]], [[0, 1, 2], [3, 4]], [0, [1, 2], [3, 4]], [[4, 3, 2, 1], 0], [[0, 1], 2, [3, 4]],
         [[1, 0], [2, 3], 4], [[3, 4, 0], [2, 1]]]


ARGS7 = [[[0, 1, 2], [3, 4], [5, 6]], [[0, 1], [2, 3, 4], [5, 6]], [[1, 0], [3, 2], [6, 5, 4]]]


def level_args(r, tier, first):
    if r == 7 and first:
        return ARGS7
    if r == 5 and first:
        return ARGS5
    if r <= 3:
        return [a for a in P.ordered_partitions(r) if any(isinstance(g, list) for g in a)]
    if tier != 'quick' and first:
        return [a for a in P.ordered_partitions(r) if any(isinstance(g, list) for g in a)]
    return P.fuse_args(r, 1)


def check_fused(f, prev, axes, A, spaces, sig, n, state, what):
    """f = prev.fuse_legs(axes): value/legs checks. state = nested groups after fusion."""
    order = flat(state)
    R = np.transpose(A, order)
    u = fully_unfuse(f)
    m = TC.check_result(u, R, [spaces[i] for i in order], tuple(sig[i] for i in order), n, what=what + ' fully unfused')
    if m:
        return m
    # a lazily transposed fused tensor unfuses (all fused legs at once) into the correspondingly permuted tensor
    if f.ndim >= 2:
        perms = [p for p in itertools.permutations(range(f.ndim)) if p != tuple(range(f.ndim))] if f.ndim <= 3 else \
            [tuple(range(f.ndim))[::-1], tuple(range(1, f.ndim)) + (0,)]
        for perm in perms:
            ft = f.transpose(perm)
            st_p = [state[i] for i in perm]
            order_p = flat(st_p)
            up = fully_unfuse(ft)
            m = TC.check_result(up, np.transpose(A, order_p), [spaces[i] for i in order_p], tuple(sig[i] for i in order_p), n,
                                what=what + f' lazily transposed by {perm}, then fully unfused', exports=False)
            if m:
                return m
    # one level of unfusing restores the previous tensor (transposed as fuse_legs documents): legs incl. history
    fa = [i for i, g in enumerate(axes) if not isinstance(g, int)]
    back = f.unfuse_legs(axes=tuple(fa))
    ref = prev.transpose(tuple(flat(list(axes))))
    if any(type(l).__name__ != 'LegMeta' and l.is_fused() for l in f.get_legs()):
        # documented: "Applying hard fusion on tensor turns all previous meta fused legs into hard fused ones"
        ref = ref.fuse_meta_to_hard()
    lb, lr = back.get_legs(), ref.get_legs()
    if back.ndim != ref.ndim or any(_leg_key(a) != _leg_key(b) for a, b in zip(lb, lr)):
        return f"{what}: unfuse_legs does not restore the legs of the original tensor: {lb} vs {lr}"
    if tuple(back.n) != tuple(ref.n):
        return f"{what}: charge changed"
    # norm: integer sum of squares
    v = yastn.vdot(f, f)
    ref_n = np.sum(np.abs(A) ** 2)
    if v != ref_n:
        return f"{what}: vdot(f, f) = {v} but sum |a|^2 = {ref_n}"
    if f.ndim != len(axes):
        return f"{what}: rank {f.ndim}, expected {len(axes)}"
    return None


def _leg_key(l):
    if type(l).__name__ == 'LegMeta':
        return ('m', l.s, l.t, l.D, l.mf, tuple(_leg_key(x) for x in l.legs))
    return ('h', l.s, l.t, l.D, l.hf)


MODES2 = [('hard', 'hard'), ('hard', 'meta'), ('meta', 'hard'), ('meta', 'meta')]
MODES3 = [('hard', 'hard', 'hard'), ('hard', 'meta', 'hard'), ('meta', 'hard', 'meta'), ('meta', 'meta', 'meta'),
          ('meta', 'meta', 'hard'), ('hard', 'hard', 'meta')]


def run_single(g, cfg, acc):
    sym, r, tier = g['sym'], g['rank'], acc.tier
    k = -1
    for td in single_pool(sym, r, tier):
        b = GT.build(cfg, sym, td, acc.seed)
        for axes1 in level_args(r, tier, True):
            k += 1
            if k % g['parts'] != g['part']:
                continue
            for m1 in ('hard', 'meta'):
                acc.check_time()
                case = {'kind': 'single', 'sym': sym, 'td': td, 'prog': [[axes1, m1]]}
                st, msg, f1, s1 = run_prog(b, case['prog'])
                record(acc, case, st, msg, b)
                if st != 'ok':
                    continue
                r1 = f1.ndim
                if r1 < 2:
                    continue
                for axes2 in level_args(r1, tier, False):
                    for m2 in ('hard', 'meta'):
                        if tier == 'quick' and r == 4 and m1 != m2:
                            continue
                        acc.check_time()
                        case2 = {'kind': 'single', 'sym': sym, 'td': td, 'prog': [[axes1, m1], [axes2, m2]]}
                        st2, msg2, f2, s2 = run_prog(b, case2['prog'], start=(f1, s1, 1))
                        record(acc, case2, st2, msg2, b)
                        if st2 != 'ok' or f2.ndim < 2:
                            continue
                        # third level: fuse everything / first pair
                        for axes3 in ([list(range(f2.ndim))], [[1, 0]] + list(range(2, f2.ndim))):
                            for m3 in ('hard', 'meta'):
                                case3 = {'kind': 'single', 'sym': sym, 'td': td,
                                         'prog': [[axes1, m1], [axes2, m2], [[a if isinstance(a, int) else a for a in axes3], m3]]}
                                st3, msg3, f3, s3 = run_prog(b, case3['prog'], start=(f2, s2, 2))
                                record(acc, case3, st3, msg3, b)


def record(acc, case, st, msg, b):
    acc.transitions += 1
    acc.states += 1
    acc.ev(repr(case), b.nblocks >= 2 and st == 'ok', (len(case['prog']), tuple(m for _, m in case['prog']), st))
    acc.cnt['single_' + st] += 1
    acc.cnt['depth%d' % len(case['prog'])] += 1
    if st == 'viol':
        acc.fail(case, msg)
    elif acc.evaluations % 3001 == 0:
        acc.sample(case)


def run_prog(b, prog, start=None):
    """apply fusion program to built tensor; verify after the last level. returns (status, msg, tensor, state)"""
    x, state, k0 = (b.x, list(range(len(b.s))), 0) if start is None else start
    for lvl, (axes, mode) in enumerate(prog):
        if lvl < k0:
            continue
        prev = x
        st, f = TC.call(lambda: prev.fuse_legs(axes=tup(axes), mode=mode))
        if st != 'ok':
            return 'viol', f"fuse_legs(axes={axes}, mode={mode}) at level {lvl + 1}: unexpected {st}: {f}", None, None
        state = apply_axes(state, axes)
        try:
            m = check_fused(f, prev, axes, b.A, b.spaces, b.s, b.n, state, f"program {prog[:lvl + 1]}")
        except (MD.ShadowError, yastn.YastnError) as e:
            m = f"program {prog[:lvl + 1]}: {type(e).__name__}: {e}"
        if m:
            return 'viol', m, None, None
        x = f
    return 'ok', None, x, state


# ------------------------------------------------------------------------------------------------
# (b) pairs

RECIPES = [
    [[[[0, 1], 2], None]],
    [[[[1, 0], 2], None]],
    [[[[0, 1, 2]], None]],
    [[[[0, 1], 2, 3], None], [[[0, 1], 2], None]],          # nested: ((0,1),2) fused, 3 free
    [[[[0, 1], [2, 3]], None], [[[0, 1]], None]],           # two pairs then everything
    [[[0, [1, 2]], None], [[[0, 1]], None]],
]


def recipe_rank(rec):
    return 1 + max(flat([a for a in rec[0][0]]))


def run_pairs(g, cfg, acc):
    sym, tier = g['sym'], acc.tier
    ms = GL.msize(sym, 3)
    nch = min(2, len(GL.CHARGES[sym]))
    k = -1
    for ri, rec in enumerate(RECIPES):
        r = recipe_rank(rec)
        nlev = len(rec)
        mode_mixes = [('hard',) * nlev, ('meta',) * nlev] + ([('hard', 'meta'), ('meta', 'hard')] if nlev == 2 else [])
        # after the recipe, which original axes are inside fused leg 0 ?
        state = list(range(r))
        for axes, _ in rec:
            state = apply_axes(state, axes)
        grp = flat(state[0])
        free = [a for s_ in state[1:] for a in flat(s_)]
        msg_ = ms if (len(grp) <= 2 or tier != 'quick') else min(ms, 2)
        for ma in itertools.product(range(msg_), repeat=len(grp)):
            for shift in itertools.product(range(ms), repeat=len(grp)):
                if tier == 'quick' and len(grp) >= 3 and len(set(shift)) > 1:
                    continue
                k += 1
                if k % g['parts'] != g['part']:
                    continue
                for modes in mode_mixes:
                    for na in range(nch):
                        for var in (['fresh'], ['lazy', list(range(r))[::-1]]):
                            acc.check_time()
                            sig_a = [1 if i % 2 == 0 else -1 for i in range(r)]
                            m_a = [0] * r
                            m_b = [0] * r
                            for q, ax in enumerate(grp):
                                m_a[ax] = ma[q]
                                m_b[ax] = (ma[q] + shift[q]) % ms
                            for ax in free:
                                m_a[ax] = ax % ms
                                m_b[ax] = (ax + 1) % ms
                            ta = {'s': sig_a, 'm': m_a, 'n': na, 'drop': None, 'var': var, 'id': 'a'}
                            for opname in ('tensordot', 'add', 'vdot', 'trace', 'tensordot_T', 'add_T', 'vdot_T'):
                                case = {'kind': 'pairs', 'sym': sym, 'recipe': ri, 'modes': list(modes), 'a': ta,
                                        'm_b': m_b, 'op': opname}
                                st, msg, rel = run_pair_case(case, cfg, acc.seed)
                                if st == 'skip':
                                    continue
                                acc.transitions += 1
                                acc.states += 1
                                acc.ev(repr(case), st == 'ok', (opname, modes, st))
                                acc.cnt['pairs_' + st] += 1
                                if rel:
                                    acc.cnt['rel_' + '+'.join(sorted(set(rel.split('+'))))] += 1
                                if st == 'viol':
                                    acc.fail(case, msg)
                                elif acc.evaluations % 2003 == 0:
                                    acc.sample(case)


def fuse_by(x, rec, modes):
    for (axes, _), mode in zip(rec, modes):
        x = x.fuse_legs(axes=tup(axes), mode=mode)
    return x


def run_pair_case(case, cfg, seed):
    sym = case['sym']
    mods = G.moduli(sym)
    rec = RECIPES[case['recipe']]
    modes = case['modes']
    r = recipe_rank(rec)
    a = GT.build(cfg, sym, case['a'], seed)
    state = list(range(r))
    for axes, _ in rec:
        state = apply_axes(state, axes)
    grp = flat(state[0])
    free = [ax for s_ in state[1:] for ax in flat(s_)]
    op = case['op']
    lazyT = op.endswith('_T')       # both fused operands carry the same pending (lazy) reversal
    if lazyT:
        op = op[:-2]
    sig_a = list(a.s)
    rel = '+'.join(GL.relation(GL.MENU[sym][case['a']['m'][ax]], GL.MENU[sym][case['m_b'][ax]]) for ax in grp)
    if any(not GL.consistent(GL.MENU[sym][case['a']['m'][ax]], GL.MENU[sym][case['m_b'][ax]]) for ax in range(r)):
        return 'skip', None, None
    try:
        if op == 'tensordot':
            sig_b = [-s if i in grp else s for i, s in enumerate(sig_a)]
            tb = {'s': sig_b, 'm': case['m_b'], 'n': 0, 'drop': [0], 'var': ['fresh'], 'id': 'b'}
            b = GT.build(cfg, sym, tb, seed)
            fa, fb = fuse_by(a.x, rec, modes), fuse_by(b.x, rec, modes)
            cax = 0
            if lazyT:
                fa, fb = fa.transpose(), fb.transpose()
                cax = fa.ndim - 1
                free = free[::-1] if False else free
            st, res = TC.call(lambda: yastn.tensordot(fa, fb, axes=(cax, cax)))
            if st != 'ok':
                return 'viol', f"tensordot over fused legs: unexpected {st}: {res}", rel
            spa, spb = list(a.spaces), list(b.spaces)
            for ax in grp:
                u = MD.union(spa[ax], spb[ax])
                spa[ax] = spb[ax] = u
            R = np.tensordot(MD.embed(a.A, a.spaces, spa), MD.embed(b.A, b.spaces, spb), axes=(grp, grp))
            u = fully_unfuse(res)
            if lazyT:   # free legs of each operand appear in reversed group order
                fr = [ax for s_ in state[1:][::-1] for ax in flat(s_)]
                R = np.tensordot(MD.embed(a.A, a.spaces, spa), MD.embed(b.A, b.spaces, spb), axes=(grp, grp))
                # R axes: free (a, original order) + free (b, original order) -> reorder to fr + fr
                pa = [free.index(ax) for ax in fr]
                R = np.transpose(R, pa + [len(free) + i for i in pa])
                free = fr
            sp = [a.spaces[i] for i in free] + [b.spaces[i] for i in free]
            sg = tuple(a.s[i] for i in free) + tuple(b.s[i] for i in free)
            m = TC.check_result(u, R, sp, sg, G.add(mods, [a.n, b.n]), what=f"tensordot over fused legs {rec} {modes}")
            return ('viol', m, rel) if m else ('ok', None, rel)
        if op in ('add', 'vdot'):
            sgn = 1 if op == 'add' else -1
            tb = {'s': [sgn * s for s in sig_a], 'm': case['m_b'], 'n': case['a']['n'] if op == 'add' else 0,
                  'drop': [0], 'var': ['fresh'], 'id': 'b'}
            if op == 'vdot':
                tb['n'] = case['a']['n']     # <a|b> with conj on a: same charge needed for a non-zero result
                tb['s'] = list(sig_a)
            b = GT.build(cfg, sym, tb, seed)
            fa, fb = fuse_by(a.x, rec, modes), fuse_by(b.x, rec, modes)
            st_eff = state
            if lazyT:
                fa, fb = fa.transpose(), fb.transpose()
                st_eff = state[::-1]
            sp = [MD.union(a.spaces[i], b.spaces[i]) for i in range(r)]
            Ae, Be = MD.embed(a.A, a.spaces, sp), MD.embed(b.A, b.spaces, sp)
            if op == 'vdot':
                st, v = TC.call(lambda: yastn.vdot(fa, fb))
                ref = np.sum(Ae.conj() * Be)
                if st != 'ok':
                    return 'viol', f"vdot over fused legs: unexpected {st}: {v}", rel
                return ('viol', f"vdot over fused legs = {v}, unfused reference {ref}", rel) if v != ref else ('ok', None, rel)
            msgs = []
            for nm, f, R in (('add', lambda: fa + fb, Ae + Be), ('sub', lambda: fa - fb, Ae - Be)):
                st, res = TC.call(f)
                if st != 'ok':
                    return 'viol', f"{nm} of fused tensors: unexpected {st}: {res}", rel
                order = flat(st_eff)
                u = fully_unfuse(res)
                m = TC.check_result(u, np.transpose(R, order), [sp[i] for i in order], tuple(a.s[i] for i in order), a.n,
                                    what=f"{nm} of tensors fused by {rec} {modes}")
                if m:
                    return 'viol', m, rel
            return 'ok', None, rel
        if op == 'trace':
            # x has legs (grp..., grp conj...), fuse both halves by the same recipe restricted to the group
            k = len(grp)
            if case['recipe'] not in (0, 1, 2) or k > 3 or lazyT:
                return 'skip', None, None
            sg = [sig_a[ax] for ax in grp] + [-sig_a[ax] for ax in grp]
            mm = [case['a']['m'][ax] for ax in grp] + [case['m_b'][ax] for ax in grp]
            tx = {'s': sg, 'm': mm, 'n': 0, 'drop': None, 'var': case['a']['var'] if False else ['fresh'], 'id': 'x'}
            x = GT.build(cfg, sym, tx, seed)
            order_in = [grp.index(ax) for ax in grp]
            inner = list(range(k)) if case['recipe'] != 1 else [1, 0]
            mode = modes[0]
            f = x.x.fuse_legs(axes=(tuple(inner), tuple(i + k for i in inner)), mode=mode)
            st, res = TC.call(lambda: f.trace(axes=(0, 1)))
            if st != 'ok':
                return 'viol', f"trace over fused legs: unexpected {st}: {res}", rel
            sp = list(x.spaces)
            for i in range(k):
                u = MD.union(sp[i], sp[i + k])
                sp[i] = sp[i + k] = u
            Ae = MD.embed(x.A, x.spaces, sp)
            ref = np.einsum(Ae, list(range(k)) + list(range(k)), [])
            v = res.to_number()
            return ('viol', f"trace over fused legs = {v}, unfused reference {ref}", rel) if v != ref else ('ok', None, rel)
    except MD.ShadowError as e:
        return 'viol', f"{op}: {e}", rel
    return 'skip', None, None


# ------------------------------------------------------------------------------------------------
# (c) incompatible fusions

def run_incompatible(g, cfg, acc):
    sym = g['sym']
    ms = GL.msize(sym, 2)
    nch = min(2, len(GL.CHARGES[sym]))
    if cfg.sym.NSYM == 0 and False:
        return
    base = {'s': [1, -1, 1], 'm': [0, ms - 1, 0], 'n': 0, 'drop': None, 'var': ['fresh'], 'id': 'a'}
    kinds = ['tree', 'order', 'signature', 'mode', 'dimension', 'depth', 'sumprod', 'dimswap']
    for kind in kinds:
        for mode in ('hard', 'meta'):
            for op in ('tensordot', 'add', 'vdot'):
                case = {'kind': 'incompatible', 'sym': sym, 'what': kind, 'mode': mode, 'op': op}
                st, msg = run_incompatible_case(case, cfg, acc.seed)
                if st == 'skip':
                    continue
                acc.transitions += 1
                acc.states += 1
                acc.ev(repr(case), True, (kind, mode, op, st))
                acc.cnt['incompatible_' + st] += 1
                if st == 'viol':
                    acc.fail(case, msg)
    acc.sample({'kind': 'incompatible', 'sym': sym, 'what': kinds})


def run_incompatible_case(case, cfg, seed):
    sym, kind, mode, op = case['sym'], case['what'], case['mode'], case['op']
    ms = GL.msize(sym, 2)
    r = 4
    sa = [1, -1, 1, -1]
    ta = {'s': sa, 'm': [0, ms - 1, 0, 0], 'n': 0, 'drop': None, 'var': ['fresh'], 'id': 'a'}
    sgn = -1 if op == 'tensordot' else (1 if op == 'add' else 1)
    tb = {'s': [sgn * s for s in sa], 'm': [0, ms - 1, 0, 0], 'n': 0, 'drop': None, 'var': ['fresh'], 'id': 'b'}
    a = GT.build(cfg, sym, ta, seed).x
    fa = a.fuse_legs(axes=((0, 1, 2), 3), mode=mode)
    if kind == 'dimswap':
        # constituents with the same charges but exchanged dimensions, fused in opposite order: the fused legs
        # have equal sectors AND equal sector dimensions, only the recorded sub-dimensions differ
        if mode == 'meta':
            return 'skip', None
        U = GL.UNIVERSE[sym]
        cs = sorted(U)[:2] if len(U) >= 2 else sorted(U)
        l1 = [[list(c), 2 + (i % 2)] for i, c in enumerate(cs)]
        l2 = [[list(c), 3 - (i % 2)] for i, c in enumerate(cs)]
        if len(cs) == 1:
            l1, l2 = [[list(cs[0]), 2]], [[list(cs[0]), 3]]
        t1 = {'s': [1, 1, 1], 'm': [l1, l2, 0], 'n': 0, 'drop': None, 'var': ['fresh'], 'id': 'a'}
        s2 = [sgn, sgn, sgn]
        t2 = {'s': s2, 'm': [l1, l2, 0], 'n': 0, 'drop': None, 'var': ['fresh'], 'id': 'b'}
        a = GT.build(cfg, sym, t1, seed).x
        b2 = GT.build(cfg, sym, t2, seed).x
        fa = a.fuse_legs(axes=((0, 1), 2), mode='hard')
        fb = b2.fuse_legs(axes=((1, 0), 2), mode='hard')
        if fa.get_legs(0).tD != fb.get_legs(0).tD:
            return 'skip', None
    elif kind == 'tree':       # same legs, different tree: ((0,1),2) nested vs flat (0,1,2)
        b = GT.build(cfg, sym, tb, seed).x
        fb = b.fuse_legs(axes=((0, 1), 2, 3), mode=mode).fuse_legs(axes=((0, 1), 2), mode=mode)
    elif kind == 'order':    # a different number of fused legs
        b = GT.build(cfg, sym, dict(tb, s=tb['s'][:3], m=tb['m'][:3]), seed).x
        fb = b.fuse_legs(axes=((0, 1), 2), mode=mode)
    elif kind == 'signature':   # inner signature differs although the outer one matches
        tb2 = dict(tb)
        s2 = list(tb['s'])
        s2[1] = -s2[1]
        tb2['s'] = s2
        b = GT.build(cfg, sym, tb2, seed).x
        fb = b.fuse_legs(axes=((0, 1, 2), 3), mode=mode)
    elif kind == 'mode':     # hard-fused against meta-fused
        b = GT.build(cfg, sym, tb, seed).x
        fb = b.fuse_legs(axes=((0, 1, 2), 3), mode='meta' if mode == 'hard' else 'hard')
    elif kind == 'dimension':   # a common charge with a different dimension inside the fused leg
        tb2 = dict(tb, m=['c', ms - 1, 0, 0])
        b = GT.build(cfg, sym, tb2, seed).x
        fb = b.fuse_legs(axes=((0, 1, 2), 3), mode=mode)
        if not (set(GL.CONFLICT[sym]) & set(GL.MENU[sym][0])):
            return 'skip', None
    elif kind == 'depth':    # fused leg against an unfused leg
        b = GT.build(cfg, sym, dict(tb, s=[tb['s'][0], tb['s'][3]], m=[0, 0]), seed).x
        fb = b
    elif kind == 'sumprod':  # a blocked ('s') leg against a product ('p') leg
        if mode == 'meta':
            return 'skip', None
        b = GT.build(cfg, sym, dict(tb, s=[tb['s'][0], tb['s'][3]], m=[0, 0]), seed).x
        fb = yastn.block({(0, 0): b, (1, 0): b})
    else:
        raise KeyError(kind)
    if op == 'tensordot':
        f = lambda: yastn.tensordot(fa, fb, axes=(0, 0))
    elif op == 'add':
        f = lambda: fa + fb
    else:
        f = lambda: yastn.vdot(fa, fb, conj=(0, 0)) if False else yastn.vdot(fa, fb.conj() if True else fb, conj=(0, 0))
        if op == 'vdot':
            f = lambda: yastn.vdot(fa, fb)
    st, res = TC.call(f)
    if st == 'yerr':
        return 'rejected', None
    if st == 'exc':
        return 'viol', f"{op} on incompatibly fused legs ({kind}, {mode}) raised {res} instead of YastnError"
    return 'viol', f"{op} on incompatibly fused legs ({kind}, {mode}) was computed instead of being rejected with YastnError"


# ------------------------------------------------------------------------------------------------
# (d) blocking

def run_block(g, cfg, acc):
    sym = g['sym']
    ms = GL.msize(sym, 3)
    nch = min(2, len(GL.CHARGES[sym]))
    for (mi, mj, mk) in itertools.product(range(ms), repeat=3):
        for n in range(nch):
            for common in (None, [0], [1]):
                for fuse_after in (None, 'hard', 'meta'):
                    acc.check_time()
                    case = {'kind': 'block', 'sym': sym, 'm': [mi, mj, mk], 'n': n, 'common': common, 'fuse_after': fuse_after}
                    st, msg = run_block_case(case, cfg, acc.seed)
                    acc.transitions += 1
                    acc.states += 1
                    acc.ev(repr(case), st == 'ok', (common, fuse_after, st))
                    acc.cnt['block_' + st] += 1
                    if st == 'viol':
                        acc.fail(case, msg)
    acc.sample({'kind': 'block', 'sym': sym, 'm': [0, 1 % ms, 0], 'n': 0, 'common': None, 'fuse_after': 'hard'})


def run_block_case(case, cfg, seed):
    """
    A_ij (i,j in 0..1) matrices with row legs from menu mi/mj and column legs from mk; B_jk likewise.
    block(A) . block(B) == block(sum_j A_ij B_jk); norm^2(block) = sum norm^2; nested vs one-step blocking.
    """
    sym = case['sym']
    mods = G.moduli(sym)
    mi, mj, mk = case['m']
    n = case['n']
    common = case['common']

    def T(tag, m0, m1, nn, s=(1, -1)):
        return GT.build(cfg, sym, {'s': list(s), 'm': [m0, m1], 'n': nn, 'drop': None, 'var': ['fresh'], 'id': tag}, seed)
    try:
        if common is None:
            # 2x2 block matrix A (rows: spaces mi, mj ; cols: mj, mk), B (rows: mj, mk ; cols mk, mi)
            rows, mids, cols = [mi, mj], [mj, mk], [mk, mi]
            Ab = {(i, j): T(f'A{i}{j}', rows[i], mids[j], n) for i in range(2) for j in range(2)}
            Bb = {(j, k): T(f'B{j}{k}', mids[j], cols[k], 0) for j in range(2) for k in range(2)}
            del Ab[(1, 0)]                       # an absent position
            bA = yastn.block({k: v.x for k, v in Ab.items()})
            bB = yastn.block({k: v.x for k, v in Bb.items()})
            prod = yastn.tensordot(bA, bB, axes=(1, 0))
            # reference: block of sums of products
            Cb = {}
            for i in range(2):
                for k in range(2):
                    acc_t = None
                    for j in range(2):
                        if (i, j) in Ab:
                            t = yastn.tensordot(Ab[(i, j)].x, Bb[(j, k)].x, axes=(1, 0))
                            acc_t = t if acc_t is None else acc_t + t
                    if acc_t is not None:
                        Cb[(i, k)] = acc_t
            ref = yastn.block(Cb)
            v1 = yastn.vdot(prod, prod)
            if case['fuse_after']:
                prod = prod.fuse_legs(axes=((0, 1),), mode=case['fuse_after'])
                ref = ref.fuse_legs(axes=((0, 1),), mode=case['fuse_after'])
            d = prod - ref
            if d.norm(p='inf') != 0:
                return 'viol', "block(A).block(B) differs from block(sum_j A_ij B_jk)"
            n2 = sum(np.sum(np.abs(v.A) ** 2) for v in Ab.values())
            if yastn.vdot(bA, bA) != n2:
                return 'viol', f"norm^2 of blocked tensor {yastn.vdot(bA, bA)} != sum of norms^2 {n2}"
            # vdot with blocked partner = sum of pairwise vdots
            Ab2 = {k: T(f'Z{k[0]}{k[1]}', rows[k[0]], mids[k[1]], n) for k in Ab}
            bA2 = yastn.block({k: v.x for k, v in Ab2.items()})
            pv = sum(np.sum(Ab[k].A.conj() * Ab2[k].A) for k in Ab)
            if yastn.vdot(bA, bA2) != pv:
                return 'viol', f"vdot of blocked tensors {yastn.vdot(bA, bA2)} != sum of pairwise vdots {pv}"
            # nested vs one step: first block rows, then columns
            r0 = yastn.block({(0, 0): Ab[(0, 0)].x, (0, 1): Ab[(0, 1)].x})
            r1 = yastn.block({(0, 1): Ab[(1, 1)].x})
            two = None
            try:
                two = yastn.block({(0, 0): r0, (1, 0): r1})
            except yastn.YastnError:
                two = None     # nested blocking with different column structure may be rejected
            return 'ok', None
        else:
            # blocking along one leg only (common_legs): stacking
            c = common[0]
            a0 = T('a0', mi, mk, n)
            a1 = T('a1', mj, mk, n) if c == 1 else T('a1', mk if False else mi, mj, n)
            if c == 1:      # common leg 1 (columns identical space mk), rows stacked
                b = yastn.block({(0,): a0.x, (1,): a1.x}, common_legs=(1,))
                n2 = np.sum(np.abs(a0.A) ** 2) + np.sum(np.abs(a1.A) ** 2)
                # contracting the stacked tensor with a column vector = stacking of products
                v = T('v', mk, 0, 0, s=(1, -1))
                lhs = yastn.tensordot(b, v.x, axes=(1, 0))
                rhs = yastn.block({(0,): yastn.tensordot(a0.x, v.x, axes=(1, 0)), (1,): yastn.tensordot(a1.x, v.x, axes=(1, 0))},
                                  common_legs=(1,))
            else:           # common leg 0 (rows identical space mi), columns stacked
                b = yastn.block({(0,): a0.x, (1,): a1.x}, common_legs=(0,))
                n2 = np.sum(np.abs(a0.A) ** 2) + np.sum(np.abs(a1.A) ** 2)
                v = T('v', 0, mi, 0, s=(1, -1))
                lhs = yastn.tensordot(v.x, b, axes=(1, 0))
                rhs = yastn.block({(0,): yastn.tensordot(v.x, a0.x, axes=(1, 0)), (1,): yastn.tensordot(v.x, a1.x, axes=(1, 0))},
                                  common_legs=(0,))
            if yastn.vdot(b, b) != n2:
                return 'viol', f"norm^2 of stacked tensor {yastn.vdot(b, b)} != {n2}"
            if case['fuse_after']:
                lhs = lhs.fuse_legs(axes=((0, 1),), mode=case['fuse_after'])
                rhs = rhs.fuse_legs(axes=((0, 1),), mode=case['fuse_after'])
            if (lhs - rhs).norm(p='inf') != 0:
                return 'viol', "contraction of a stacked tensor differs from stacking of contractions"
            return 'ok', None
    except yastn.YastnError as e:
        return 'viol', f"blocking identity raised YastnError: {e}"
    except MD.ShadowError as e:
        return 'viol', str(e)
    except Exception as e:
        return 'viol', f"blocking identity raised {type(e).__name__}: {e}"


def replay(case):
    cfg = GC.make(case['sym'])
    seed = case.get('seed', 0)
    k = case['kind']
    if k == 'single':
        b = GT.build(cfg, case['sym'], case['td'], seed)
        st, msg, _, _ = run_prog(b, case['prog'])
        return [msg] if st == 'viol' else []
    if k == 'pairs':
        st, msg, _ = run_pair_case(case, cfg, seed)
        return [msg] if st == 'viol' else []
    if k == 'incompatible':
        st, msg = run_incompatible_case(case, cfg, seed)
        return [msg] if st == 'viol' else []
    if k == 'block':
        st, msg = run_block_case(case, cfg, seed)
        return [msg] if st == 'viol' else []
    return [f"unknown kind {k}"]


def finalize(summary, tier):
    errs = []
    c = summary['cnt']
    for key in ('depth1', 'depth2', 'depth3', 'pairs_ok', 'incompatible_rejected', 'block_ok'):
        if c.get(key, 0) < 20:
            errs.append(f"vacuity: counter {key} = {c.get(key, 0)}")
    rels = [k for k in c if k.startswith('rel_')]
    if not any('disjoint' in k for k in rels) or not any('overlapping' in k for k in rels) or not any('nested' in k for k in rels):
        errs.append(f"vacuity: sector relations seen {rels}")
    return errs
