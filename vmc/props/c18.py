"""
C18 - Krylov solvers agree with dense matrix functions.
Grid enumeration: linear maps f(v) = M.v on symmetric tensors (operator catalogue: Hermitian, anti-Hermitian, generic
complex, nilpotent, diagonal, identity, rank-one, zero, positive definite) x start vectors (generic, eigenvector,
invariant 2-d subspace, zero) x solver options; oracle = dense matrix of the map restricted to the sector of the start
vector (built by applying f to the sector basis) with scipy.linalg.expm / numpy eig / solve.
"""
import collections
import itertools

import numpy as np
import scipy.linalg
import yastn

from vmc.engine.runner import h64
from vmc.gen import configs as GC, legs as GL, tensors as GT
from . import _tcommon as TC

PROPERTY_ID = 'C18'
LEVEL = 'exploration'
RULE = ("grid enumeration (symmetry, vector shape, operator kind, start vector kind, solver, options); one case = one solver call "
        "compared with the dense matrix function on the sector; non-trivial = reachable Krylov dimension >= 2; distinct by case hash")
ASSUMPTIONS = ["expmv error bound: |result - expm(tF)v| <= (50 tol steps + 1e-11)|ref| (calibrated on the unchanged tree: worst ratio 1.6)",
               "svds (ARPACK random start) not covered"]
BUDGET = {'quick': 150, 'thorough': 1000}

SYMS = ['dense', 'Z2', 'U1', 'U1xU1']
OPKINDS = ['herm', 'antiherm', 'generic', 'nilpotent', 'diag', 'identity', 'rank1', 'zero', 'posdef']
VKINDS = ['generic', 'eigvec', 'inv2', 'zero']


def groups(tier, seed):
    gs = []
    for sym in SYMS:
        for shape in (1, 2, 3):
            for ok in OPKINDS:
                gs.append({'sym': sym, 'rank': shape, 'op': ok, 'level': 1 if shape <= 2 else 2})
    return gs


class Problem:
    """linear map on tensors with the structure of v0, its dense matrix and (de)vectorisation"""

    def __init__(self, sym, rank, opkind, seed, cplx):
        cfg = GC.make(sym, dtype='complex128' if cplx else 'float64')
        self.cfg = cfg
        ms = GL.msize(sym, 3)
        big = {t: d + 2 for t, d in GL.MENU[sym][min(1, ms - 1)].items()}
        if sym == 'dense':
            big = {(): 5}
        leg = GL.make_leg(cfg, 1, big)
        others = [GL.make_leg(cfg, -1 if i % 2 == 0 else 1, GL.MENU[sym][i % ms]) for i in range(rank - 1)]
        cfg.backend.random_seed(seed=h64((seed, sym, rank, opkind)) % (2 ** 31))
        n = tuple(GL.CHARGES[sym][min(1, len(GL.CHARGES[sym]) - 1)]) if rank >= 2 else tuple(cfg.sym.zero())
        if rank == 1:
            n = tuple(leg.t[0]) if leg.t else ()
            n = cfg.sym.add_charges(n, new_signature=1) if sym != 'dense' else ()
        self.v = yastn.rand(cfg, legs=[leg] + others, n=n)
        A = yastn.rand(cfg, legs=[leg, leg.conj()])
        if cplx:
            A = A + 1j * yastn.rand(cfg, legs=[leg, leg.conj()])
        if opkind == 'herm':
            M = A + A.H
        elif opkind == 'antiherm':
            M = A - A.H
        elif opkind == 'generic':
            M = A
        elif opkind == 'nilpotent':
            M = A.copy()
            for t in leg.t:
                M[t + t] = np.triu(np.asarray(M[t + t]), 1)
        elif opkind == 'diag':
            M = yastn.eye(cfg, legs=[leg, leg.conj()], isdiag=False)
            for t in leg.t:
                d = leg[t]
                M[t + t] = np.diag(np.arange(1, d + 1) * (1.0 if not cplx else (1 + 0.5j)))
        elif opkind == 'identity':
            M = yastn.eye(cfg, legs=[leg, leg.conj()], isdiag=False)
        elif opkind == 'rank1':
            u = yastn.rand(cfg, legs=[leg], n=tuple(leg.t[-1]) if leg.t else ())
            M = yastn.tensordot(u, u, axes=((), ()), conj=(0, 1))
        elif opkind == 'zero':
            M = 0 * A
        elif opkind == 'posdef':
            M = A @ A.H + yastn.eye(cfg, legs=[leg, leg.conj()], isdiag=False)
        self.M = M
        self.calls = 0
        _, self.meta = yastn.split_data_and_meta(self.v.to_dict(level=0), squeeze=True)
        self.dim = self.v.size
        F = np.zeros((self.dim, self.dim), dtype=np.complex128)
        for i in range(self.dim):
            e = np.zeros(self.dim, dtype=np.complex128 if cplx else np.float64)
            e[i] = 1
            F[:, i] = self.vec(self.apply(self.unvec(e)))
        self.F = F

    def apply(self, x):
        return yastn.tensordot(self.M, x, axes=(1, 0))

    def f(self, x):
        self.calls += 1
        return self.apply(x)

    def vec(self, x):
        d, _ = yastn.split_data_and_meta(x.to_dict(level=0, meta=self.meta), squeeze=True)
        return np.asarray(d).astype(np.complex128)

    def unvec(self, a):
        return yastn.Tensor.from_dict(yastn.combine_data_and_meta(np.asarray(a), self.meta))

    def start(self, kind):
        v = self.v
        if kind == 'generic':
            return v
        if kind == 'zero':
            return 0 * v
        w, V = np.linalg.eig(self.F)
        if kind == 'eigvec':
            x = V[:, np.argmax(np.abs(w))]
            if not self.cfg.default_dtype.startswith('complex'):
                if np.abs(x.imag).max() > 1e-9:
                    x = V[:, 0]
                    if np.abs(x.imag).max() > 1e-9:
                        return None
                x = x.real
            return self.unvec(x / np.linalg.norm(x))
        if kind == 'inv2':
            if self.dim < 2:
                return None
            x = V[:, 0] + V[:, -1]
            if not self.cfg.default_dtype.startswith('complex'):
                if np.abs(x.imag).max() > 1e-9:
                    return None
                x = x.real
            nx = np.linalg.norm(x)
            return self.unvec(x / nx) if nx > 1e-9 else None
        raise KeyError(kind)

    def krylov_dim(self, x):
        """dimension of span{x, Fx, F^2 x, ...} by Arnoldi with re-orthogonalisation"""
        nx = np.linalg.norm(x)
        if nx == 0:
            return 0
        Q = [x / nx]
        for _ in range(self.dim):
            w = self.F @ Q[-1]
            nw0 = np.linalg.norm(w)
            for _rep in range(2):
                for q in Q:
                    w = w - np.vdot(q, w) * q
            nw = np.linalg.norm(w)
            if nw <= 1e-9 * max(nw0, 1e-300) or nw < 1e-12:
                break
            Q.append(w / nw)
        return len(Q)


def run_group(g, acc):
    for cplx in (False, True):
        st, P = TC.call(Problem, g['sym'], g['rank'], g['op'], acc.seed, cplx)
        if st != 'ok':
            acc.cnt['problem_unavailable'] += 1
            continue
        if P.dim == 0:
            continue
        herm = g['op'] in ('herm', 'diag', 'identity', 'rank1', 'zero', 'posdef') and (g['op'] != 'diag' or not cplx)
        for vk in VKINDS:
            v0 = P.start(vk)
            if v0 is None:
                continue
            x0 = P.vec(v0)
            kd = P.krylov_dim(x0)
            base = {'sym': g['sym'], 'rank': g['rank'], 'op': g['op'], 'cplx': cplx, 'v': vk}
            run_expmv(P, v0, x0, kd, herm, base, acc)
            run_eigs(P, v0, x0, kd, herm, base, acc)
            run_lin(P, v0, x0, kd, herm, base, acc)


def finding_key(case, kd=None):
    """stable keys of the recorded known findings (see /verif/known_findings.json); None for anything else"""
    if case.get('solver') == 'expmv' and case.get('op') == 'nilpotent':
        t = case.get('t')
        at = abs(complex(t['re'], t['im'])) if isinstance(t, dict) else abs(t)
        if at >= 30:
            return 'expmv:nilpotent-large-t'
    if case.get('solver') == 'eigs' and kd is not None and case.get('ncv', 0) >= kd:
        return 'eigs:ncv-exceeds-krylov-dimension'
    return None


def _rec(acc, case, msg, nontriv, tag, branch=None, kd=None):
    acc.ev(repr(case), nontriv and msg is None, (tag, msg is None, branch))
    acc.cnt[tag + ('_ok' if msg is None else '_viol')] += 1
    if msg:
        acc.fail(case, msg, key=finding_key(case, kd))
    elif acc.evaluations % 701 == 0:
        acc.sample(case)


def same_sector(r, v0):
    if not isinstance(r, yastn.Tensor):
        return f"result is {type(r).__name__}"
    if tuple(r.n) != tuple(v0.n) or tuple(r.s) != tuple(v0.s) or r.ndim != v0.ndim:
        return f"result has charge/signature {r.n}/{r.s}, the start vector {v0.n}/{v0.s}"
    return None


def run_expmv(P, v0, x0, kd, herm, base, acc):
    ts = [0, 1e-3, -0.1, 1j, -2j, 1 + 1j, 30, 300j] if acc.tier != 'quick' else [0, -0.1, 1j, 1 + 1j, 30, 300j]
    tols = [1e-6, 1e-10, 1e-13] if acc.tier != 'quick' else [1e-6, 1e-12]
    for t in ts:
        if not P.cfg.default_dtype.startswith('complex') and isinstance(t, complex):
            continue
        lam = np.linalg.eigvals(P.F)
        growth = np.max(np.abs((t * lam).real)) if lam.size else 0.0
        if growth > 25:
            # exponentials growing/decaying by more than e^{25}: rescale t (sub-stepping is still forced by |t| |F| >> 1)
            t = t * (25 / growth)
        E = scipy.linalg.expm(t * P.F)
        ref = E @ x0
        nref = np.linalg.norm(ref)
        if not np.isfinite(nref) or nref > 1e100 or nref < 1e-100:
            continue
        # conditioning of the reference w.r.t. round-off in the start vector (e.g. a start vector that is an eigenvector up to 1e-16)
        pert = E @ (x0 + 1e-13 * np.linalg.norm(x0) * np.ones_like(x0) / np.sqrt(len(x0)))
        if np.linalg.norm(pert - ref) > 1e-8 * nref:
            acc.cnt['expmv_skipped_ill_conditioned_reference'] += 1
            continue
        for tol in tols:
            for ncv in (1, 2, 5, 40):
                for hflag in ((False, True) if herm else (False,)):
                    for normalize in (False, True):
                        acc.check_time()
                        case = dict(base, solver='expmv', t=_j(t), tol=tol, ncv=ncv, hermitian=hflag, normalize=normalize)
                        P.calls = 0
                        st, out = TC.call_timed(3, lambda: yastn.expmv(P.f, v0, t=t, tol=tol, ncv=ncv, hermitian=hflag, normalize=normalize, return_info=True))
                        msg, branch = None, None
                        if st == 'timeout':
                            acc.cnt['expmv_uncovered_timeout'] += 1
                            continue
                        if np.linalg.norm(x0) == 0:
                            if normalize:
                                msg = None if st == 'yerr' else f"expmv of the zero vector with normalize=True: {st}"
                            elif st != 'ok' or np.linalg.norm(P.vec(out[0])) != 0:
                                msg = f"expmv of the zero vector: {st}"
                            _rec(acc, case, msg, False, 'expmv')
                            continue
                        if st != 'ok':
                            msg = f"expmv(t={t}, tol={tol}, ncv={ncv}, hermitian={hflag}, normalize={normalize}): {st}: {out}"
                        else:
                            r, info = out
                            msg = same_sector(r, v0)
                            if not msg:
                                x = P.vec(r)
                                target = ref / nref if normalize else ref
                                scale = 1.0 if normalize else max(nref, 1e-300)
                                err = np.linalg.norm(x - target) / scale
                                steps = max(1, int(info['steps']))
                                kappa = np.linalg.norm(E, 2) * np.linalg.norm(x0) / nref      # conditioning of the evaluation
                                bound = 50 * tol * steps + 1e-11 + 1e-13 * kappa
                                if nref < 1e-8 * np.linalg.norm(x0) and normalize:
                                    bound = max(bound, 1e-6)      # normalising a vector that decayed below round-off
                                if not err <= bound:
                                    msg = (f"expmv(t={t}, tol={tol}, ncv={ncv}, hermitian={hflag}, normalize={normalize}): relative error {err} "
                                           f"exceeds {bound} (steps={steps})")
                                elif info['krylov_steps'] != P.calls:
                                    msg = f"expmv info.krylov_steps = {info['krylov_steps']} but f was called {P.calls} times"
                                elif info['steps'] < 1 and t != 0:
                                    msg = f"expmv info.steps = {info['steps']}"
                                branch = (steps > 1, int(info['ncv']) != ncv)
                        _rec(acc, case, msg, kd >= 2, 'expmv', branch)


def _j(t):
    return {'re': t.real, 'im': t.imag} if isinstance(t, complex) else t


def run_eigs(P, v0, x0, kd, herm, base, acc):
    if np.linalg.norm(x0) == 0:
        st, out = TC.call(lambda: yastn.eigs(P.f, v0, k=1, ncv=3))
        _rec(acc, dict(base, solver='eigs', zero=True), None if st == 'yerr' else f"eigs with zero start vector: {st}", False, 'eigs')
        return
    # eigenvalues of F restricted to the Krylov space of x0
    K = [x0 / np.linalg.norm(x0)]
    for _ in range(kd - 1):
        K.append(P.F @ K[-1])
    Q, _ = np.linalg.qr(np.array(K).T)
    T = Q.conj().T @ P.F @ Q
    wk = np.linalg.eigvals(T)
    wall = np.linalg.eigvals(P.F)
    for k in (1, 2, 3):
        for which in ('SR', 'LR', 'LM', 'SM'):
            for ncv in sorted({k, k + 1, 5, kd, kd + 3}):
                if ncv < k:
                    continue
                for hflag in ((False, True) if herm else (False,)):
                    acc.check_time()
                    case = dict(base, solver='eigs', k=k, which=which, ncv=ncv, hermitian=hflag)
                    st, out = TC.call(lambda: yastn.eigs(P.f, v0, k=k, which=which, ncv=ncv, hermitian=hflag))
                    msg = None
                    if st == 'yerr':
                        _rec(acc, case, None, False, 'eigs_rejected')
                        continue
                    if st != 'ok':
                        msg = f"eigs(k={k}, which={which}, ncv={ncv}, hermitian={hflag}): {st}: {out}"
                    else:
                        vals, vecs = out
                        vals = np.asarray(vals)
                        for x in vecs:
                            msg = msg or same_sector(x, v0)
                        if not msg and base['op'] == 'nilpotent':
                            pass      # eigenvalues of a nilpotent (defective) map are ill-conditioned: only sector and no crash
                        elif not msg and ncv >= kd:
                            kk = min(k, kd, len(vals))
                            key = {'SR': wk.real, 'LR': -wk.real, 'LM': -np.abs(wk), 'SM': np.abs(wk)}[which]
                            refv = wk[np.argsort(key, kind='stable')][:kk]
                            gk = {'SR': vals.real, 'LR': -vals.real, 'LM': -np.abs(vals), 'SM': np.abs(vals)}[which]
                            if len(vals) < kk:
                                msg = f"eigs returned {len(vals)} values, expected {kk}"
                            elif not np.allclose(np.sort(gk[:kk]), np.sort({'SR': refv.real, 'LR': -refv.real, 'LM': -np.abs(refv), 'SM': np.abs(refv)}[which]), atol=1e-7 * max(1, np.abs(wk).max())):
                                msg = (f"eigs(k={k}, which={which}, ncv={ncv}>=Krylov dimension {kd}) returns {vals[:kk]}; the eigenvalues of the map "
                                       f"on the reachable space ordered by '{which}' are {refv}")
                            else:
                                for lam, x in zip(vals[:kk], vecs[:kk]):
                                    res = np.linalg.norm(P.F @ P.vec(x) - lam * P.vec(x))
                                    if res > 1e-6 * max(1, np.abs(wk).max()):
                                        msg = f"eigs(k={k}, which={which}, ncv={ncv}): residual |F x - lambda x| = {res} at full Krylov dimension"
                                        break
                        elif not msg and herm:
                            lo, hi = wall.real.min(), wall.real.max()
                            if np.any(vals.real < lo - 1e-8 * max(1, abs(lo))) or np.any(vals.real > hi + 1e-8 * max(1, abs(hi))):
                                msg = f"eigs Ritz values {vals} outside the spectrum [{lo}, {hi}] of a Hermitian map"
                    _rec(acc, case, msg, kd >= 2, 'eigs', ncv >= kd, kd=kd)


def run_lin(P, v0, x0, kd, herm, base, acc):
    if base['op'] not in ('posdef', 'diag', 'identity', 'generic', 'herm'):
        return
    cplx = base['cplx']
    rng = np.random.default_rng(h64((acc.seed, repr(base))))
    bvec = rng.standard_normal(P.dim) + (1j * rng.standard_normal(P.dim) if cplx else 0)
    b = P.unvec(bvec if cplx else bvec.real)
    for guess in ('zero', 'v0', 'scaled'):
        g0 = {'zero': 0 * v0, 'v0': v0, 'scaled': 3.5 * v0}[guess]
        q0 = bvec - P.F @ P.vec(g0)
        kq = P.krylov_dim(q0)
        for ncv in sorted({1, 3, kq, kq + 2, P.dim + 1}):
            for hflag in ((False, True) if herm else (False,)):
                acc.check_time()
                case = dict(base, solver='lin_solver', guess=guess, ncv=ncv, hermitian=hflag)
                st, out = TC.call(lambda: yastn.lin_solver(P.f, b, g0, ncv=ncv, hermitian=hflag))
                msg = None
                if st != 'ok':
                    msg = f"lin_solver(ncv={ncv}, hermitian={hflag}, guess={guess}): {st}: {out}"
                else:
                    vf, res = out
                    msg = same_sector(vf, v0)
                    if not msg:
                        x = P.vec(vf)
                        true = np.linalg.norm(P.F @ x - bvec)
                        if abs(true - res) > 1e-9 * max(1.0, np.linalg.norm(bvec)):
                            msg = f"lin_solver reports residual {res} but |f(vf) - b| = {true}"
                        elif ncv >= kq and base['op'] in ('posdef', 'diag', 'identity') and true > 1e-7 * np.linalg.norm(bvec):
                            msg = (f"lin_solver(ncv={ncv} >= Krylov dimension {kq}, guess={guess}) leaves residual {true} for a well-conditioned "
                                   f"map (|b| = {np.linalg.norm(bvec)})")
                        elif ncv >= kq and base['op'] in ('posdef', 'diag', 'identity'):
                            sol = np.linalg.solve(P.F, bvec)
                            if np.linalg.norm(x - sol) > 1e-6 * max(1.0, np.linalg.norm(sol)):
                                msg = f"lin_solver at full Krylov dimension differs from numpy.linalg.solve by {np.linalg.norm(x - sol)}"
                _rec(acc, case, msg, kq >= 2, 'lin')


def replay(case):
    acc = _Mini()
    acc.seed = case.get('seed', 0)
    g = {'sym': case['sym'], 'rank': case['rank'], 'op': case['op']}
    run_group(g, acc)
    keys = [k for k in case if k not in ('seed',)]
    return [v['msg'] for v in acc.violations if all(v['case'].get(k) == case.get(k) for k in keys)][:3]


class _Mini:
    def __init__(self):
        self.violations, self.cnt = [], collections.Counter()
        self.evaluations = 0
        self.tier, self.seed = 'quick', 0

    def ev(self, *a, **k):
        self.evaluations += 1

    def fail(self, case, msg, key=None):
        self.violations.append({'case': case, 'msg': msg})

    def sample(self, c):
        pass

    def check_time(self):
        pass


def finalize(summary, tier):
    errs = []
    c = summary['cnt']
    for k in ('expmv_ok', 'eigs_ok', 'lin_ok'):
        if c.get(k, 0) < 500:
            errs.append(f"vacuity: {k} = {c.get(k, 0)}")
    if summary['outcomes'] < 8:
        errs.append(f"vacuity: only {summary['outcomes']} distinct controller-branch outcomes")
    return errs
