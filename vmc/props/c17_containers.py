"""Container-level part of C17 (MPS/MPO, PEPS, environments). Filled in once the MPS/PEPS drivers exist."""


def groups(tier):
    return []


def run_group(g, acc):
    raise KeyError(g)


def replay(case):
    return []
