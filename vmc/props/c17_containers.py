"""
Container-level part of C17: MPS/MPO (with / without central block, non-unit factor), Peps on every lattice class,
Peps2Layers (with / without bra), DoublePepsTensor (operator, swaps, transposes), EnvCTM / EnvBP / EnvBoundaryMPS.
Product enumeration objects x serialisation paths; oracle: every constituent tensor observationally identical
(c17.same_tensor), container attributes (N, nr_phys, pC, factor, geometry, trans, swaps) equal; legacy paths that are
documented to absorb the central block are compared through the represented state.
"""
import collections
import io
import warnings

import numpy as np
import yastn
import yastn.tn.mps as mps
import yastn.tn.fpeps as fpeps

from vmc.gen import mpsgen as MG
from vmc.gen import pepsgen as PG
from . import _tcommon as TC


def groups(tier):
    gs = []
    for fam, sym in (('spin12', 'dense'), ('spin12', 'U1'), ('spinless', 'Z2'), ('spinless', 'U1'), ('spinful', 'U1xU1')):
        gs.append({'kind': 'c_mps', 'fam': fam, 'sym': sym, 'level': 1})
    for fam, sym in (('spinless', 'U1'), ('spinless', 'Z2'), ('spin12', 'dense'), ('spin12', 'Z2')):
        gs.append({'kind': 'c_peps', 'fam': fam, 'sym': sym, 'level': 1})
        gs.append({'kind': 'c_env', 'fam': fam, 'sym': sym, 'level': 1})
    return gs


def run_group(g, acc):
    {'c_mps': run_mps, 'c_peps': run_peps, 'c_env': run_env}[g['kind']](g, acc)


def _same_tensor(a, b, what):
    from . import c17
    return c17.same_tensor(a, b, what)


def same_mps(a, b, what):
    if type(a).__name__ != type(b).__name__:
        return f"{what}: restored object is {type(b).__name__}, not {type(a).__name__}"
    if (a.N, a.nr_phys, a.pC) != (b.N, b.nr_phys, b.pC):
        return f"{what}: (N, nr_phys, pC) = {(b.N, b.nr_phys, b.pC)} instead of {(a.N, a.nr_phys, a.pC)}"
    if not np.array_equal(np.asarray(a.factor), np.asarray(b.factor)):
        return f"{what}: factor {b.factor} instead of {a.factor}"
    if set(a.A) != set(b.A):
        return f"{what}: tensor keys {sorted(b.A, key=repr)} instead of {sorted(a.A, key=repr)}"
    for k in a.A:
        m = _same_tensor(a.A[k], b.A[k], f"{what}: tensor {k}")
        if m:
            return m
    return None


def same_state(a, b, what):
    """equality of the represented MPS/MPO (for legacy paths that absorb the central block)"""
    if (a.N, a.nr_phys) != (b.N, b.nr_phys):
        return f"{what}: (N, nr_phys) = {(b.N, b.nr_phys)} instead of {(a.N, a.nr_phys)}"
    if b.pC is not None:
        return f"{what}: restored object has a central block at {b.pC}"
    a = a.shallow_copy()
    a.absorb_central_()   # to_tensor() does not include a central block
    ta, tb = a.to_tensor(), b.to_tensor()
    la = ta.get_legs()
    d = np.abs(ta.to_numpy(legs=dict(enumerate(la))) - tb.to_numpy(legs=dict(enumerate(la)))).max()
    if not d <= 1e-13 * max(1, np.abs(ta.to_numpy()).max()):
        return f"{what}: represented state differs by {d:.3e}"
    return None


def mps_paths():
    return ['dict0', 'dict1', 'dict2', 'generic2', 'cls2', 'split2', 'split0_sq', 'npsave2', 'legacy', 'hdf5']


def mps_roundtrip(x, path, cfg):
    if path in ('dict0', 'dict1', 'dict2'):
        return type(x).from_dict(x.to_dict(level=int(path[-1])))
    if path == 'generic2':
        return yastn.from_dict(x.to_dict(level=2))
    if path == 'cls2':
        return mps.MpsMpoOBC.from_dict(x.to_dict(level=2), config=cfg)
    if path in ('split2', 'split0_sq'):
        data, meta = yastn.split_data_and_meta(x.to_dict(level=int(path[5])), squeeze=path.endswith('_sq'))
        return yastn.from_dict(yastn.combine_data_and_meta(data, meta))
    if path == 'npsave2':
        buf = io.BytesIO()
        np.save(buf, x.to_dict(level=2), allow_pickle=True)
        buf.seek(0)
        return yastn.from_dict(np.load(buf, allow_pickle=True).item())
    if path == 'legacy':
        with warnings.catch_warnings():
            warnings.simplefilter('ignore')
            d = x.save_to_dict()
        return mps.load_from_dict(cfg, d)
    if path == 'hdf5':
        import h5py
        with h5py.File('c17c-inmemory.h5', 'w', driver='core', backing_store=False) as f:
            x.save_to_hdf5(f, 'state/')
            return mps.load_from_hdf5(cfg, f, 'state/')
    raise KeyError(path)


def mps_objects(loc, seed):
    out = []
    for N in (1, 2, 3):
        ch = loc.charges_N(N)
        n = ch[len(ch) // 2]
        for cplx in (False, True):
            psi = MG.random_state(loc, N, n, 3, (seed, 'c17c', N, cplx), integer=True, cplx=cplx)
            out.append((f'mps:N{N}:{"c" if cplx else "r"}:asbuilt', psi))
            can = psi.copy()
            can.canonize_(to='last', normalize=False)
            out.append((f'mps:N{N}:{"c" if cplx else "r"}:canonical_factor', can))
            if N >= 2:
                cb = psi.copy()
                cb.canonize_(to='first')
                cb.orthogonalize_site_(0, to='last')
                out.append((f'mps:N{N}:{"c" if cplx else "r"}:central_block', cb))
                cb2 = psi.copy()
                cb2.canonize_(to='last')
                cb2.orthogonalize_site_(N - 1, to='first')
                cb2.factor = 2.5
                out.append((f'mps:N{N}:{"c" if cplx else "r"}:central_block_last', cb2))
        op = MG.random_operator(loc, N, 2, (seed, 'c17c', 'op', N), integer=True)
        out.append((f'mpo:N{N}', op))
        out.append((f'mpo:N{N}:lazyT', op.T))
        out.append((f'mpo:N{N}:scaled', -0.5 * op))
    return out


def run_mps(g, acc):
    loc = MG.Local(g['fam'], g['sym'])
    cfg = loc.config
    for label, x in mps_objects(loc, acc.seed):
        for path in mps_paths():
            acc.check_time()
            case = {'kind': 'c_mps', 'fam': g['fam'], 'sym': g['sym'], 'obj': label, 'path': path, 'seed': acc.seed}
            m = mps_case(x, path, cfg, label)
            acc.ev(key=repr(case), nontrivial=x.N >= 2, outcome=('c_mps', path, m is None, 'central' in label))
            acc.cnt['container_roundtrips'] += 1
            if m:
                acc.fail(case, m)
    acc.sample({'kind': 'c_mps', 'fam': g['fam'], 'sym': g['sym']})


def mps_case(x, path, cfg, label):
    st, y = TC.call(lambda: mps_roundtrip(x, path, cfg))
    if st != 'ok':
        return f"{label} via {path}: round trip failed: {st}: {y}"
    what = f"{label} via {path}"
    if path in ('legacy', 'hdf5'):
        return same_state(x, y, what)
    m = same_mps(x, y, what)
    if m:
        return m
    if path in ('dict2', 'generic2', 'npsave2', 'split2'):   # level 2 is independent of the original
        before = [np.array(x.A[k]._data) for k in x.A]
        for k in y.A:
            y.A[k]._data[...] = y.A[k]._data * 0 + 1
        if any(not np.array_equal(b, x.A[k]._data) for b, k in zip(before, x.A)):
            return f"{what}: writing into the restored object changed the original"
    return None


# ---------------------------------------------------------------------------------------------
# PEPS

def peps_geometries():
    return [('SquareLattice', dict(dims=(2, 2), boundary='obc')), ('SquareLattice', dict(dims=(2, 3), boundary='cylinder')),
            ('SquareLattice', dict(dims=(3, 2), boundary='infinite')), ('SquareLattice', dict(dims=(1, 1), boundary='infinite')),
            ('CheckerboardLattice', {}), ('RectangularUnitcell', dict(pattern=[[0, 1, 2], [1, 2, 0], [2, 0, 1]])),
            ('RectangularUnitcell', dict(pattern=[[3, 5], [5, 3]])),
            ('TriangularLattice', {}), ('TriangularLattice', dict(dims=(2, 2), boundary='obc', full_patch=True)),
            ('TriangularLattice', dict(dims=(3, 3), boundary='infinite', full_patch=False))]


def make_peps(loc, gname, kw, seed, entangle=True):
    geo = getattr(fpeps, gname)(**kw)
    psi = fpeps.product_peps(geo, loc.O['I'])
    if entangle:
        nn, lc = PG.gate_kinds(loc)
        kind, par = nn[0]
        for k, b in enumerate(list(geo.bonds())[:3]):
            if tuple(b[0]) == tuple(b[1]):
                continue
            gate = PG.build_gate(loc, {'kind': kind, 'par': par, 'step': PG.jstep(0.2 + 0.1j * (k + 1)), 'sites': [list(b[0]), list(b[1])]})
            st, _ = TC.call(lambda: psi.apply_gate_(gate))
    return geo, psi


def same_peps(a, b, what):
    if type(a).__name__ != type(b).__name__:
        return f"{what}: restored object is {type(b).__name__}, not {type(a).__name__}"
    if not (a.geometry == b.geometry):
        return f"{what}: restored geometry {b.geometry} differs from {a.geometry}"
    if list(a.sites()) != list(b.sites()) or list(a.bonds()) != list(b.bonds()) or tuple(a.dims) != tuple(b.dims):
        return f"{what}: restored sites/bonds/dims differ"
    for s in a.sites():
        m = _same_tensor(a[s], b[s], f"{what}: tensor at {tuple(s)}")
        if m:
            return m
    return None


def peps_roundtrip(x, path, cfg):
    if path in ('dict0', 'dict1', 'dict2'):
        return type(x).from_dict(x.to_dict(level=int(path[-1])))
    if path == 'dict2_r':
        return type(x).from_dict(x.to_dict(level=2, resolve_ops=True))
    if path == 'generic2':
        return yastn.from_dict(x.to_dict(level=2))
    if path == 'cfg2':
        return type(x).from_dict(x.to_dict(level=2), config=cfg)
    if path == 'split2':
        data, meta = yastn.split_data_and_meta(x.to_dict(level=2))
        return yastn.from_dict(yastn.combine_data_and_meta(data, meta))
    if path == 'npsave2':
        buf = io.BytesIO()
        np.save(buf, x.to_dict(level=2), allow_pickle=True)
        buf.seek(0)
        return yastn.from_dict(np.load(buf, allow_pickle=True).item())
    if path == 'legacy':
        with warnings.catch_warnings():
            warnings.simplefilter('ignore')
            d = x.save_to_dict()
        return fpeps.load_from_dict(cfg, d)
    raise KeyError(path)


PEPS_PATHS = ['dict0', 'dict1', 'dict2', 'dict2_r', 'generic2', 'cfg2', 'split2', 'npsave2', 'legacy']


def run_peps(g, acc):
    loc = PG.PLocal(g['fam'], g['sym'])
    cfg = loc.config
    for gi, (gname, kw) in enumerate(peps_geometries()):
        geo, psi = make_peps(loc, gname, kw, acc.seed)
        for path in PEPS_PATHS:
            acc.check_time()
            case = {'kind': 'c_peps', 'fam': g['fam'], 'sym': g['sym'], 'obj': 'peps', 'geometry': gi, 'gname': gname, 'path': path, 'seed': acc.seed}
            st, y = TC.call(lambda: peps_roundtrip(psi, path, cfg))
            m = f"Peps on {gname}({kw}) via {path}: round trip failed: {st}: {y}" if st != 'ok' else same_peps(psi, y, f"Peps on {gname}({kw}) via {path}")
            acc.ev(key=repr(case), nontrivial=len(psi.sites()) >= 2, outcome=('c_peps', gname, path, m is None))
            acc.cnt['container_roundtrips'] += 1
            if m:
                acc.fail(case, m)
    # two-layer PEPS and DoublePepsTensor
    geo, psi = make_peps(loc, 'SquareLattice', dict(dims=(2, 2), boundary='obc'), acc.seed)
    geo, phi = make_peps(loc, 'SquareLattice', dict(dims=(2, 2), boundary='obc'), acc.seed, entangle=False)
    for label, obj in (('peps2layers', fpeps.Peps2Layers(psi)), ('peps2layers_bra', fpeps.Peps2Layers(ket=psi, bra=phi))):
        for lvl in (0, 2):
            case = {'kind': 'c_peps', 'fam': g['fam'], 'sym': g['sym'], 'obj': label, 'path': f'dict{lvl}', 'seed': acc.seed}
            m = p2l_case(obj, lvl, label)
            acc.ev(key=repr(case), nontrivial=True, outcome=('c_p2l', label, lvl, m is None))
            acc.cnt['container_roundtrips'] += 1
            if m:
                acc.fail(case, m)
    sites = [tuple(s) for s in geo.sites()]
    O = loc.O
    charged = [k for k in O if any(O[k].n)]
    sym = cfg.sym
    one = tuple(1 for _ in sym.zero()) if sym.NSYM else None
    for tr in ((0, 1, 2, 3), (1, 2, 3, 0), (0, 3, 2, 1), (3, 2, 1, 0)):
        for opn in (None, 'I', charged[0] if charged else None):
            for sw in (None, {'k4': one, 'b0': one} if one else None):
                for lvl in (0, 1, 2):
                    case = {'kind': 'c_peps', 'fam': g['fam'], 'sym': g['sym'], 'obj': 'dpt', 'trans': list(tr), 'op': opn, 'swaps': repr(sw), 'path': f'dict{lvl}', 'seed': acc.seed}
                    dpt = fpeps.DoublePepsTensor(bra=phi[sites[0]], ket=psi[sites[0]], trans=tr)
                    if opn:
                        dpt.set_operator_(O[opn])
                    if sw:
                        for ax, ch in sw.items():
                            dpt.add_charge_swaps_(ch, ax)
                    m = dpt_case(dpt, lvl)
                    acc.ev(key=repr(case), nontrivial=True, outcome=('c_dpt', tr, opn is None, sw is None, lvl, m is None))
                    acc.cnt['container_roundtrips'] += 1
                    if m:
                        acc.fail(case, m)
    acc.sample({'kind': 'c_peps', 'fam': g['fam'], 'sym': g['sym']})


def p2l_case(obj, lvl, label):
    st, d = TC.call(lambda: obj.to_dict(level=lvl))
    if st != 'ok':
        return f"{label}.to_dict(level={lvl}) failed: {st}: {d}"
    if obj.bra_is_ket:
        st, y = TC.call(lambda: yastn.from_dict(d))
        if st != 'ok':
            return f"{label}: from_dict failed: {st}: {y}"
        if isinstance(y, fpeps.Peps2Layers):
            y = y.ket
        return same_peps(obj.ket, y, f"{label} level {lvl} (documented to store the ket only)")
    st, y = TC.call(lambda: yastn.from_dict(d))
    if st != 'ok':
        return f"{label}: from_dict failed: {st}: {y}"
    if not isinstance(y, fpeps.Peps2Layers):
        return f"{label}: restored object is {type(y).__name__}"
    return same_peps(obj.ket, y.ket, f"{label} level {lvl}: ket") or same_peps(obj.bra, y.bra, f"{label} level {lvl}: bra")


def dpt_case(dpt, lvl):
    st, y = TC.call(lambda: yastn.from_dict(dpt.to_dict(level=lvl)))
    if st != 'ok':
        st, y = TC.call(lambda: fpeps.DoublePepsTensor.from_dict(dpt.to_dict(level=lvl)))
        if st != 'ok':
            return f"DoublePepsTensor level {lvl}: round trip failed: {st}: {y}"
    if not isinstance(y, fpeps.DoublePepsTensor):
        return f"DoublePepsTensor level {lvl}: restored object is {type(y).__name__}"
    if tuple(y.trans) != tuple(dpt.trans) or dict(y.swaps) != dict(dpt.swaps) or (y.op is None) != (dpt.op is None):
        return f"DoublePepsTensor level {lvl}: trans/swaps/op = {y.trans}/{y.swaps}/{y.op is not None} instead of {dpt.trans}/{dpt.swaps}/{dpt.op is not None}"
    m = _same_tensor(dpt.ket, y.ket, 'DoublePepsTensor ket') or _same_tensor(dpt.bra, y.bra, 'DoublePepsTensor bra')
    if m:
        return m
    if dpt.op is not None:
        m = _same_tensor(dpt.op, y.op, 'DoublePepsTensor op')
        if m:
            return m
    fa, fb = dpt.fuse_layers(), y.fuse_layers()
    return _same_tensor(fa, fb, f"DoublePepsTensor level {lvl}: fuse_layers()")


# ---------------------------------------------------------------------------------------------
# environments

def env_objects(loc, seed):
    out = []
    for dims, bnd in (((2, 2), 'obc'), ((1, 3), 'obc'), ((2, 2), 'infinite')):
        geo, psi = make_peps(loc, 'SquareLattice', dict(dims=dims, boundary=bnd), seed)
        opts = {'D_total': 4, 'tol': 1e-12}
        e = fpeps.EnvCTM(psi, init='eye')
        out.append((f'EnvCTM:{dims}:{bnd}:eye', e, psi))
        e2 = fpeps.EnvCTM(psi, init='eye')
        if bnd == 'obc':
            e2.expand_outward_()
        else:
            e2.update_(opts_svd=opts)
        out.append((f'EnvCTM:{dims}:{bnd}:evolved', e2, psi))
        b = fpeps.EnvBP(psi)
        b.iterate_(max_sweeps=2)
        out.append((f'EnvBP:{dims}:{bnd}', b, psi))
        b2 = fpeps.EnvBP(psi, which='NN+BP')
        b2.iterate_(max_sweeps=1)
        out.append((f'EnvBP:{dims}:{bnd}:NN+BP', b2, psi))
        if bnd == 'obc':
            m = fpeps.EnvBoundaryMPS(psi, opts_svd={'D_total': 16}, setup='lrtb')
            out.append((f'EnvBoundaryMPS:{dims}:{bnd}', m, psi))
    return out


def env_tensors(e):
    """(label, tensor-like) of everything an environment holds"""
    out = []
    name = type(e).__name__
    if name == 'EnvBoundaryMPS':
        for k, v in sorted(e._env.items(), key=lambda kv: repr(kv[0])):
            out.append((f'boundary {k}', v))
        return out
    for s in e.sites():
        loc = e[s]
        for f in loc.fields():
            out.append((f'{tuple(s)}.{f}', getattr(loc, f)))
        if name.startswith('EnvCTM') and getattr(e, 'proj', None) is not None:
            pr = e.proj[s]
            for f in pr.fields():
                out.append((f'proj {tuple(s)}.{f}', getattr(pr, f)))
    return out


def same_env(a, b, what, legacy=False):
    if type(a).__name__ != type(b).__name__:
        return f"{what}: restored object is {type(b).__name__}, not {type(a).__name__}"
    if not (a.geometry == b.geometry):
        return f"{what}: geometry differs"
    if not legacy and getattr(a, 'which', None) != getattr(b, 'which', None):
        return f"{what}: which = {getattr(b, 'which', None)!r} instead of {getattr(a, 'which', None)!r}"
    ka = a.psi.ket if isinstance(a.psi, fpeps.Peps2Layers) else a.psi
    kb = b.psi.ket if isinstance(b.psi, fpeps.Peps2Layers) else b.psi
    m = same_peps(ka, kb, f"{what}: psi")
    if m:
        return m
    ta, tb = env_tensors(a), env_tensors(b)
    if [k for k, _ in ta] != [k for k, _ in tb]:
        return f"{what}: environment tensors {[k for k, _ in tb][:6]}.. instead of {[k for k, _ in ta][:6]}.."
    for (k, x), (_, y) in zip(ta, tb):
        if legacy and (k.startswith('proj ') or k.endswith('R')):
            continue    # the deprecated format stores the environment tensors only; projectors / BP gauge factors are recomputed
        if (x is None) != (y is None):
            return f"{what}: {k} is {'missing' if y is None else 'present'} after the round trip"
        if x is None:
            continue
        if isinstance(x, yastn.Tensor):
            m = _same_tensor(x, y, f"{what}: {k}")
        else:
            m = same_mps(x, y, f"{what}: {k}")
        if m:
            return m
    return None


def env_roundtrip(e, path, cfg):
    if path in ('dict0', 'dict1', 'dict2'):
        return type(e).from_dict(e.to_dict(level=int(path[-1])))
    if path == 'generic2':
        return yastn.from_dict(e.to_dict(level=2))
    if path == 'cfg2':
        return type(e).from_dict(e.to_dict(level=2), config=cfg)
    if path == 'split2':
        data, meta = yastn.split_data_and_meta(e.to_dict(level=2))
        return yastn.from_dict(yastn.combine_data_and_meta(data, meta))
    if path == 'legacy':
        with warnings.catch_warnings():
            warnings.simplefilter('ignore')
            d = e.save_to_dict()
        return fpeps.load_from_dict(cfg, d)
    raise KeyError(path)


ENV_PATHS = ['dict0', 'dict1', 'dict2', 'generic2', 'cfg2', 'split2', 'legacy']


def run_env(g, acc):
    loc = PG.PLocal(g['fam'], g['sym'])
    cfg = loc.config
    for label, e, psi in env_objects(loc, acc.seed):
        for path in ENV_PATHS:
            acc.check_time()
            case = {'kind': 'c_env', 'fam': g['fam'], 'sym': g['sym'], 'obj': label, 'path': path, 'seed': acc.seed}
            st, y = TC.call(lambda: env_roundtrip(e, path, cfg))
            m = f"{label} via {path}: round trip failed: {st}: {y}" if st != 'ok' else same_env(e, y, f"{label} via {path}", legacy=(path == 'legacy'))
            if m is None and label.startswith(('EnvCTM', 'EnvBP')) and path in ('dict2', 'legacy'):
                # the restored environment measures the same values
                op = [v for k, v in loc.O.items() if k != 'I' and not any(v.n)]
                if op:
                    st1, v1 = TC.call(lambda: e.measure_1site(op[0]))
                    st2, v2 = TC.call(lambda: y.measure_1site(op[0]))
                    if st1 == 'ok' and (st2 != 'ok' or any(abs(v1[s] - v2[s]) > 1e-13 for s in v1)):
                        m = f"{label} via {path}: restored environment measures differently ({st2})"
            acc.ev(key=repr(case), nontrivial=True, outcome=('c_env', label.split(':')[0], path, m is None))
            acc.cnt['container_roundtrips'] += 1
            if m:
                acc.fail(case, m)
    acc.sample({'kind': 'c_env', 'fam': g['fam'], 'sym': g['sym']})


# ---------------------------------------------------------------------------------------------

def replay(case):
    acc = _Mini()
    acc.seed = case.get('seed', 0)
    g = {k: case[k] for k in ('kind', 'fam', 'sym')}
    run_group(g, acc)
    keys = [k for k in case if k not in ('seed',)]
    return [v['msg'] for v in acc.violations if all(v['case'].get(k) == case.get(k) for k in keys)][:3]


class _Mini:
    def __init__(self):
        self.violations, self.cnt = [], collections.Counter()
        self.evaluations = self.states = self.transitions = 0
        self.tier, self.seed = 'quick', 0

    def ev(self, *a, **k):
        pass

    def fail(self, case, msg, key=None):
        self.violations.append({'case': case, 'msg': msg})

    def sample(self, c):
        pass

    def check_time(self):
        pass
