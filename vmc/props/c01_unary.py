"""Unary operations of C01: op catalogue with NumPy references on the dense ground truth."""
import itertools

import numpy as np
import yastn

from vmc.models import dense as MD
from vmc.models import groups as G
from . import _tcommon as TC


def subsets_axes(rank, full):
    if rank == 0:
        return []
    out = [[i] for i in range(rank)]
    if rank >= 2:
        out.append(list(range(rank)))
    if full or rank <= 2:
        for k in range(2, rank):
            out += [list(c) for c in itertools.combinations(range(rank), k)]
    return out


def catalogue(rank, diag, cplx, full):
    """list of (opname, args) - JSON-able"""
    ops = [('exports', None), ('conj', None), ('conj_blocks', None), ('flip_signature', None), ('T', None),
           ('H', None), ('copy', None), ('clone', None), ('neg', None), ('abs', None), ('real', None),
           ('imag', None), ('sqrt_abs', None), ('pow', 2), ('remove_zero_blocks', None), ('zero_then_rzb', None),
           ('norm', 'fro'), ('norm', 'inf'), ('to_number', None), ('item', None), ('contains', None),
           ('to_raw_tensor', None), ('exp', 0.5), ('rsqrt', 0), ('rsqrt', 1.5), ('reciprocal', 0),
           ('reciprocal', 1.5), ('diag', None), ('shallow_copy', None), ('detach', None), ('to_same', None)]
    for c in ([2, -1, 0] + ([0.5j, 1 - 1j] if cplx else [0.5])):
        cj = c if not isinstance(c, complex) else {'re': c.real, 'im': c.imag}
        ops += [('mul', cj), ('rmul', cj)]
    ops += [('truediv', 2)]
    if not cplx:
        ops += [('cmp', ['gt', 1]), ('cmp', ['lt', 0]), ('cmp', ['ge', 1]), ('cmp', ['le', -1])]
    if rank >= 1:
        for p in itertools.permutations(range(rank)):
            if rank <= 3 or full or p in (tuple(reversed(range(rank))), tuple(range(1, rank)) + (0,)):
                ops.append(('transpose', list(p)))
        for i in range(rank):
            for j in range(rank):
                ops.append(('moveaxis', [i, j]))
        if rank >= 2:
            ops.append(('moveaxis', [-1, 0]))
            ops.append(('moveaxis', [[0, 1], [1, 0]]))
    if not diag:
        for ax in subsets_axes(rank, full):
            ops.append(('flip_charges', ax))
            ops.append(('switch_signature', ax))
        if rank:
            ops.append(('flip_charges', None))
            ops.append(('switch_signature', 'all'))
            ops.append(('flip_charges', 0))
        for axis in list(range(rank + 1)) + [-1]:
            for s in (1, -1):
                for t in (None, 0, 1):
                    ops.append(('add_leg', [axis, s, t]))
        for axis in range(rank):
            ops.append(('remove_leg', axis))
        for i in range(rank):
            for j in range(rank):
                if i != j:
                    ops.append(('trace', [i, j]))
        if rank >= 4:
            ops.append(('trace', [[0, 1], [2, 3]]))
            ops.append(('trace', [[0, 3], [1, 2]]))
            ops.append(('trace', [[2, 0], [3, 1]]))
    else:
        ops.append(('trace', [0, 1]))
        ops.append(('trace', [1, 0]))
        ops.append(('add_leg', [0, 1, None]))
        ops.append(('remove_leg', 0))
        ops.append(('flip_charges', None))
    return ops


def _num(c):
    return complex(c['re'], c['im']) if isinstance(c, dict) else c


def _tcharge(sym, k):
    """k-th test charge for add_leg: 0 -> zero, 1 -> n1"""
    from vmc.gen import legs as GL
    return tuple(GL.CHARGES[sym][min(k, len(GL.CHARGES[sym]) - 1)])


def run_op(b, sym, op, args):
    """
    Execute op on the built tensor b (b.x with truth b.A) and compare with the NumPy reference.
    Returns (status, message): status in {'ok','rejected'} and message None, or ('viol', message).
    """
    x, A, spaces, sig, n = b.x, b.A, b.spaces, b.s, b.n
    mods = G.moduli(sym)
    rank = len(sig)
    cplx = np.iscomplexobj(A)
    diag = x.isdiag
    pm = None

    def expect_val(res, R, sp, sg, nn, tol=0.0, exports=True):
        st, r = res
        if st != 'ok':
            return 'viol', f"{op}{args}: unexpected {st}: {r}"
        m = TC.check_result(r, R, sp, sg, nn, tol=tol, exports=exports, what=f"{op}({args})")
        return ('viol', m) if m else ('ok', None)

    def expect_err(res, why):
        st, r = res
        if st == 'yerr':
            return 'rejected', None
        if st == 'exc':
            return 'viol', f"{op}{args}: {why}; expected YastnError but got {r}"
        return 'viol', f"{op}{args}: {why}; expected YastnError but a value was returned"

    negn = G.neg(mods, n)
    negs = tuple(-s for s in sig)

    if op == 'exports':
        if diag:
            d1 = x.to_numpy()
            own = b.own
            if not np.array_equal(d1, MD.dense(x, own)):
                return 'viol', "to_numpy() of a diagonal tensor differs from block access"
            return 'ok', None
        D = MD.dense(x, spaces)
        if not np.array_equal(D, A):
            return 'viol', "block access does not reproduce the blocks that were set"
        own = b.own
        Down = MD.dense(x, own)
        exps = [('to_numpy', lambda: x.to_numpy()), ('to_dense', lambda: np.asarray(x.to_dense()))]
        if b.nblocks:  # (to_nonsymmetric of a tensor without blocks has zero-size legs; not part of the statement)
            exps.append(('to_nonsymmetric', lambda: x.to_nonsymmetric().to_numpy()))
        for name, f in exps:
            st, E = TC.call(f)
            if st != 'ok':
                return 'viol', f"{name}() -> {st}: {E}"
            if not np.array_equal(E, Down):
                return 'viol', f"{name}() differs from block access over get_legs()"
        if rank:
            ld = TC.legs_dict(x.config, sig, spaces)
            st, E = TC.call(lambda: x.to_numpy(legs=ld))
            if st != 'ok' or not np.array_equal(E, A):
                return 'viol', f"to_numpy(legs=full spaces) differs from ground truth ({st})"
            st, E = TC.call(lambda: x.to_numpy(reverse=True))
            Rv = Down
            for ax, sp in enumerate(own):
                offs, _ = MD.offsets(sp)
                idx = [i for t in sorted(sp, reverse=True) for i in range(*offs[t])]
                Rv = np.take(Rv, idx, axis=ax)
            if st != 'ok' or not np.array_equal(E, Rv):
                return 'viol', f"to_numpy(reverse=True) is not the sector-reversed array ({st})"
            legs = x.get_legs()
            for i, l in enumerate(legs):
                if l.s != sig[i] or x.get_legs(i) != l or x.get_shape(i) != sum(l.D):
                    return 'viol', f"get_legs()[{i}] inconsistent: {l} vs signature {sig}"
            if tuple(x.get_shape()) != Down.shape or tuple(x.s) != tuple(sig) or x.ndim != rank:
                return 'viol', f"get_shape {x.get_shape()} / s {x.s} inconsistent with dense {Down.shape} / {sig}"
        return 'ok', None
    if op == 'conj':
        return expect_val(TC.call(x.conj), A.conj(), spaces, negs, negn)
    if op == 'conj_blocks':
        return expect_val(TC.call(x.conj_blocks), A.conj(), spaces, sig, n)
    if op == 'flip_signature':
        return expect_val(TC.call(x.flip_signature), A, spaces, negs, negn)
    if op == 'T':
        return expect_val(TC.call(lambda: x.T), np.transpose(A), spaces[::-1], sig[::-1], n)
    if op == 'H':
        return expect_val(TC.call(lambda: x.H), np.transpose(A).conj(), spaces[::-1], negs[::-1], negn)
    if op in ('copy', 'clone', 'shallow_copy', 'detach', 'to_same'):
        f = {'copy': x.copy, 'clone': x.clone, 'shallow_copy': x.shallow_copy, 'detach': x.detach,
             'to_same': lambda: x.to(dtype=x.yastn_dtype)}[op]
        return expect_val(TC.call(f), A, spaces, sig, n)
    if op == 'neg':
        return expect_val(TC.call(lambda: -x), -A, spaces, sig, n)
    if op == 'mul':
        c = _num(args)
        return expect_val(TC.call(lambda: x * c), A * c, spaces, sig, n)
    if op == 'rmul':
        c = _num(args)
        return expect_val(TC.call(lambda: c * x), c * A, spaces, sig, n)
    if op == 'truediv':
        return expect_val(TC.call(lambda: x / args), A / args, spaces, sig, n)
    if op == 'pow':
        return expect_val(TC.call(lambda: x ** args), A ** args, spaces, sig, n)
    if op == 'abs':
        return expect_val(TC.call(lambda: abs(x)), np.abs(A), spaces, sig, n)
    if op == 'real':
        return expect_val(TC.call(x.real), A.real.astype(A.real.dtype), spaces, sig, n)
    if op == 'imag':
        return expect_val(TC.call(x.imag), A.imag.astype(A.real.dtype), spaces, sig, n)
    if op == 'sqrt_abs':
        return expect_val(TC.call(lambda: abs(x).sqrt()), np.sqrt(np.abs(A)), spaces, sig, n, tol=1e-15)
    if op == 'exp':
        pm = TC.present_mask(b)
        R = np.where(pm, np.exp(args * A), 0)
        return expect_val(TC.call(lambda: x.exp(step=args)), R, spaces, sig, n, tol=1e-14)
    if op in ('rsqrt', 'reciprocal'):
        y = abs(x) if op == 'rsqrt' else x
        B = np.abs(A) if op == 'rsqrt' else A
        with np.errstate(divide='ignore', invalid='ignore'):
            R = np.where(np.abs(B) > args, (1. / np.sqrt(B)) if op == 'rsqrt' else (1. / B), 0)
        R = np.nan_to_num(R, nan=0.0, posinf=0.0, neginf=0.0)
        f = (lambda: y.rsqrt(cutoff=args)) if op == 'rsqrt' else (lambda: y.reciprocal(cutoff=args))
        return expect_val(TC.call(f), R, spaces, sig, n, tol=1e-15)
    if op == 'cmp':
        kind, c = args
        f = {'gt': lambda: x > c, 'lt': lambda: x < c, 'ge': lambda: x >= c, 'le': lambda: x <= c}[kind]
        g = {'gt': np.greater, 'lt': np.less, 'ge': np.greater_equal, 'le': np.less_equal}[kind]
        pm = TC.present_mask(b)
        R = np.where(pm, g(A, c), False)
        return expect_val(TC.call(f), R, spaces, sig, n, exports=False)
    if op == 'transpose':
        p = tuple(args)
        return expect_val(TC.call(lambda: x.transpose(p)), np.transpose(A, p), [spaces[i] for i in p],
                          tuple(sig[i] for i in p), n)
    if op == 'moveaxis':
        src, dst = args
        R = np.moveaxis(A, src, dst)
        perm = list(range(rank))
        s_l = [src] if isinstance(src, int) else list(src)
        d_l = [dst] if isinstance(dst, int) else list(dst)
        s_l = [v % rank for v in s_l]
        d_l = [v % rank for v in d_l]
        rest = [i for i in perm if i not in s_l]
        newp = [None] * rank
        for s_, d_ in zip(s_l, d_l):
            newp[d_] = s_
        it = iter(rest)
        newp = [v if v is not None else next(it) for v in newp]
        return expect_val(TC.call(lambda: x.moveaxis(src, dst)), R, [spaces[i] for i in newp],
                          tuple(sig[i] for i in newp), n)
    if op in ('flip_charges', 'switch_signature'):
        if op == 'flip_charges':
            axes = list(range(rank)) if args is None else ([args] if isinstance(args, int) else list(args))
            f = (lambda: x.flip_charges()) if args is None else (lambda: x.flip_charges(axes=args))
        else:
            axes = list(range(rank)) if args == 'all' else list(args)
            f = lambda: x.switch_signature(axes=args)
        if diag:
            return expect_err(TC.call(f), 'diagonal tensor')
        R, sp, sg = A, list(spaces), list(sig)
        for ax in axes:
            R, sp[ax] = TC.flip_axis_dense(mods, R, sp[ax], ax)
            sg[ax] = -sg[ax]
        return expect_val(TC.call(f), R, sp, tuple(sg), n)
    if op == 'add_leg':
        axis, s, tk = args
        if diag:
            return expect_err(TC.call(lambda: x.add_leg(axis=axis, s=s)), 'diagonal tensor')
        nsym = len(mods)
        if tk is None:
            t = G.add(mods, [n], (-1,), s)
            targ = None
        else:
            t = _tcharge(sym, tk)
            targ = t if nsym != 1 else t[0]
            if nsym == 0:
                targ = ()
        newn = G.add(mods, [n, t], (1, s))
        pos = axis % (rank + 1)
        R = np.expand_dims(A, pos)
        sp = spaces[:pos] + [{t: 1}] + spaces[pos:]
        sg = sig[:pos] + (s,) + sig[pos:]
        return expect_val(TC.call(lambda: x.add_leg(axis=axis, s=s, t=targ)), R, sp, sg, newn)
    if op == 'remove_leg':
        axis = args
        if diag:
            return expect_err(TC.call(lambda: x.remove_leg(axis=axis)), 'diagonal tensor')
        own = b.own
        removable = (len(own[axis]) == 1 and list(own[axis].values()) == [1]) or len(own[axis]) == 0
        f = lambda: x.remove_leg(axis=axis)
        if not removable:
            return expect_err(TC.call(f), 'leg is not a single sector of dimension one')
        if len(own[axis]) == 0:
            t = G.zero(mods)
        else:
            t = list(own[axis])[0]
        # the sector may be embedded in a larger expected space: take that index
        offs, _ = MD.offsets(spaces[axis])
        idx = offs[t][0] if t in offs else 0
        R = np.take(A, idx, axis=axis)
        if len(own[axis]) == 0:
            R = np.zeros_like(R)
        newn = G.add(mods, [n, t], (1, -sig[axis]))
        return expect_val(TC.call(f), R, spaces[:axis] + spaces[axis + 1:], sig[:axis] + sig[axis + 1:], newn)
    if op == 'trace':
        i0, i1 = args
        l0 = [i0] if isinstance(i0, int) else list(i0)
        l1 = [i1] if isinstance(i1, int) else list(i1)
        f = lambda: x.trace(axes=(i0, i1))
        if diag:
            st, r = TC.call(f)
            if st != 'ok':
                return 'viol', f"trace of diagonal tensor: {st} {r}"
            m = TC.check_result(r, np.trace(A).reshape(()), [], (), n, what='trace(diag)')
            return ('viol', m) if m else ('ok', None)
        bad = any(sig[a] != -sig[c] for a, c in zip(l0, l1))
        own = b.own
        incons = any(not _cons(own[a], own[c]) for a, c in zip(l0, l1))
        if bad or incons:
            return expect_err(TC.call(f), 'signatures or dimensions of traced legs do not match')
        if any(not _cons(spaces[a], spaces[c]) for a, c in zip(l0, l1)):
            st, r = TC.call(f)   # conflicting sectors are not stored in this tensor: outcome unspecified
            return ('viol', f"trace: {r}") if st == 'exc' else ('rejected', None)
        R = A
        sp = list(spaces)
        for a, c in zip(l0, l1):
            u = MD.union(sp[a], sp[c])
            spa = list(sp)
            spa[a] = u
            spa[c] = u
            R = MD.embed(R, sp, spa)
            sp = spa
        rest = [i for i in range(rank) if i not in l0 + l1]
        R = np.einsum(R, _trace_subs(rank, l0, l1), rest)
        newn = n
        return expect_val(TC.call(f), R, [sp[i] for i in rest], tuple(sig[i] for i in rest), newn)
    if op == 'diag':
        f = x.diag
        if diag:
            return expect_val(TC.call(f), A, spaces, sig, n)
        own = b.own
        pm = TC.present_mask(b)
        ok = rank == 2 and sig[0] == -sig[1] and all(v == 0 for v in n)
        if ok:
            # all stored blocks must be square
            ok = all(own[0].get(t) == own[1].get(t) for t in set(own[0]) & set(own[1])) and \
                all(t in own[1] for t in own[0]) and all(t in own[0] for t in own[1])
        if not ok:
            st, r = TC.call(f)
            if st == 'yerr':
                return 'rejected', None
            if st == 'exc':
                return 'viol', f"diag(): {r}"
            # accepted although our conservative precondition says no: still must be the diagonal
        if not _cons(spaces[0], spaces[1]):
            st, r = TC.call(f)
            return ('viol', f"diag: {r}") if st == 'exc' else ('rejected', None)
        u = MD.union(spaces[0], spaces[1])
        Ae = MD.embed(A, spaces, [u, u])
        R = np.diag(np.diag(Ae))
        st, r = TC.call(f)
        if st != 'ok':
            return 'viol', f"diag() of a square-block matrix: {st} {r}"
        if not r.isdiag:
            return 'viol', "diag() of a matrix did not return a diagonal tensor"
        m = TC.check_result(r, R, [u, u], sig, n, what='diag()')
        return ('viol', m) if m else ('ok', None)
    if op == 'remove_zero_blocks':
        return expect_val(TC.call(x.remove_zero_blocks), A, spaces, sig, n)
    if op == 'zero_then_rzb':
        st, r = TC.call(lambda: (x * 0).remove_zero_blocks())
        if st != 'ok':
            return 'viol', f"(x*0).remove_zero_blocks(): {st} {r}"
        if len(r.get_blocks_charge()) != 0 or r.size != 0:
            return 'viol', f"(x*0).remove_zero_blocks() keeps {len(r.get_blocks_charge())} blocks"
        return expect_val(('ok', r), A * 0, spaces, sig, n)
    if op == 'norm':
        st, v = TC.call(lambda: x.norm(p=args))
        if st != 'ok':
            return 'viol', f"norm({args}): {st} {v}"
        Ad = np.diag(A) if diag else A
        ref = np.linalg.norm(Ad.ravel()) if args == 'fro' else (np.max(np.abs(Ad)) if Ad.size else 0.0)
        if abs(v - ref) > 1e-13 * max(1.0, abs(ref)):
            return 'viol', f"norm({args}) = {v}, NumPy gives {ref}"
        return 'ok', None
    if op in ('to_number', 'item'):
        f = x.to_number if op == 'to_number' else x.item
        st, v = TC.call(f)
        size = x.size
        if size > 1:
            if st == 'yerr':
                return 'rejected', None
            return 'viol', f"{op}() on a tensor with {size} elements: {st} {v}"
        if st != 'ok':
            return 'viol', f"{op}(): {st} {v}"
        ref = (np.diag(A) if diag else A).sum() if size == 1 else 0
        if v != ref:
            return 'viol', f"{op}() = {v}, expected {ref}"
        return 'ok', None
    if op == 'contains':
        own = b.own
        if diag or rank == 0:
            return 'ok', None
        for key in itertools.product(*[sorted(o) for o in own]):
            flat = tuple(c for t in key for c in t)
            st, blk = TC.call(lambda: x[flat])
            st2, c2 = TC.call(lambda: flat in x)
            st3, c3 = TC.call(lambda: key in x)
            if st2 != 'ok' or st3 != 'ok':
                return 'viol', f"`key in x` raised: {c2} {c3}"
            if (st == 'ok') != bool(c2) or (st == 'ok') != bool(c3):
                return 'viol', (f"block access is inconsistent: x[{flat}] {'exists' if st == 'ok' else 'missing'} "
                                f"but ({flat} in x) = {c2}, ({key} in x) = {c3}")
        return 'ok', None
    if op == 'to_raw_tensor':
        nb = len(x.get_blocks_charge())
        st, v = TC.call(x.to_raw_tensor)
        if nb != 1:
            if st == 'yerr':
                return 'rejected', None
            return 'viol', f"to_raw_tensor() with {nb} blocks: {st}"
        if st != 'ok':
            return 'viol', f"to_raw_tensor(): {st} {v}"
        own = b.own
        D = MD.dense(x, own)
        v = np.asarray(v)
        if diag:
            ok = v.ndim == 1 and np.array_equal(np.diag(v), D) or (v.shape == D.shape and np.array_equal(v, D))
        else:
            ok = v.shape == D.shape and np.array_equal(v, D)
        if not ok:
            return 'viol', (f"to_raw_tensor() has shape {v.shape} but the single block read through block access / "
                            f"to_numpy has shape {D.shape} (or values differ)")
        return 'ok', None
    raise KeyError(op)


def _cons(a, c):
    return all(a[k] == c[k] for k in a.keys() & c.keys())


def _trace_subs(rank, l0, l1):
    subs = list(range(rank))
    for a, c in zip(l0, l1):
        subs[c] = subs[a]
    return subs
