"""
C08 - Canonical forms preserve the state; truncation is honest.
Exhaustive exploration of gauge-move sequences (canonize_, orthogonalize_site_, absorb_central_, diagonalize_central_,
truncate_ with non-binding limits, in all directions / normalize flags) from several initial gauges; the represented
state is contracted by the harness itself (site tensors AND central block times factor).  Observers (norm, Schmidt values,
entropies, is_canonical) are compared with numpy.linalg.svd of the dense state across every cut.  Binding truncation from
the documented opposite gauge: discarded weight = relative distance, factor, limits, Eckart-Young for one cut.
"""
import collections
import itertools

import numpy as np
import yastn
import yastn.tn.mps as mps

from vmc.engine.runner import h64
from vmc.gen import mpsgen as MG
from . import _tcommon as TC

PROPERTY_ID = 'C08'
LEVEL = 'model_checking'
RULE = ("all sequences of gauge moves up to the depth from every initial (state, gauge); a state of the search = the sequence; "
        "one transition = one in-place move followed by the full invariant check on the harness-contracted state; non-trivial = "
        "initial state with a bond of dimension >= 2; binding truncations: one evaluation = one (state, direction, options) run")
ASSUMPTIONS = ["represented state = product of site tensors, central block and factor (contracted by the harness with tensordot)",
               "tolerances 1e-10 relative"]
BUDGET = {'quick': 170, 'thorough': 1200}
TOL = 1e-10

FAMS = [('spin12', 'dense'), ('spin12', 'Z2'), ('spin12', 'U1'), ('spinless', 'U1'), ('spin1', 'Z3'), ('spinful', 'U1xU1'), ('spinful', 'U1xU1xZ2')]
NONBINDING = [{}, {'tol': 1e-14}, {'D_total': 10 ** 6}]
BINDING = [{'D_total': 1}, {'D_total': 2}, {'D_block': 1}, {'tol': 0.3}, {'D_total': 2, 'tol': 0.05},
           {'D_block': 1, 'policy': 'lowrank'}, {'D_total': 2, 'D_block': 2, 'policy': 'lowrank'}]   # a driver choice must not change what is reported


def _contract_chain(psi):
    """returns tensor with legs (vl, physical legs in site order [ket,bra per site for MPO], vr)"""
    N = psi.N
    T = None
    for n in range(N):
        parts = []
        if psi.pC == (n - 1, n):
            parts.append(psi.A[psi.pC])
        parts.append(psi.A[n])
        if n == N - 1 and psi.pC == (N - 1, N):
            parts.append(psi.A[psi.pC])
        for t in parts:
            if T is None:
                T = t if t.ndim != 4 else t.transpose((0, 1, 3, 2))
            elif t.ndim == 2:
                T = yastn.tensordot(T, t, axes=(T.ndim - 1, 0))
            elif t.ndim == 3:
                T = yastn.tensordot(T, t, axes=(T.ndim - 1, 0))
            else:
                T = yastn.tensordot(T, t.transpose((0, 1, 3, 2)), axes=(T.ndim - 1, 0))
    return T


def represented(psi, loc):
    T = _contract_chain(psi)
    T = T.remove_leg(axis=0)
    T = T.remove_leg(axis=T.ndim - 1)
    N, sp = psi.N, loc.space
    if psi.nr_phys == 1:
        A = T.to_numpy(legs={i: sp for i in range(N)})
    else:
        legs = {}
        for i in range(N):
            legs[2 * i] = sp
            legs[2 * i + 1] = sp.conj()
        A = T.to_numpy(legs=legs)
    return psi.factor * A


def initial_states(loc, N, seed, tier):
    out = []
    charges = loc.charges_N(N)
    mid = charges[len(charges) // 2]
    for D, integer in ((2, True), (4, False)):
        psi = MG.random_state(loc, N, mid, D, (seed, 'c08', loc.fam, loc.sym, N, D), integer=integer)
        if psi is not None:
            out.append((f'rand(D={D},{"int" if integer else "generic"})', psi))
    # GHZ-like sum of product states (rank deficient, degenerate Schmidt values)
    ps = MG.product_states(loc, N)
    if len(ps) >= 2 and MG.same_outer(ps[0][1], ps[1][1]):
        out.append(('ghz', ps[0][1] + ps[1][1]))
    elif ps:
        out.append(('product', ps[0][1]))
    O = MG.random_operator(loc, N, 2, (seed, 'c08O', loc.fam, loc.sym, N), integer=False)
    if N <= 3:
        out.append(('mpo', O))
    return out


def gauges(psi):
    """the same state in different gauges: as built, left/right canonical, with a central block at every bond"""
    yield 'as_built', psi.copy()
    a = psi.copy()
    a.canonize_(to='first', normalize=False)
    yield 'right_canonical', a
    b = psi.copy()
    b.canonize_(to='last', normalize=False)
    yield 'left_canonical', b
    N = psi.N
    for n in range(N):
        c = psi.copy()
        c.canonize_(to='first', normalize=False)
        for k in range(n):
            c.orthogonalize_site_(n=k, to='last', normalize=False)
            c.absorb_central_(to='last')
        c.orthogonalize_site_(n=n, to='last', normalize=False)
        yield f'central({n},{n + 1})', c
    d = psi.copy()
    d.canonize_(to='last', normalize=False)
    d.orthogonalize_site_(n=0, to='first', normalize=False)
    yield 'central(-1,0)', d


def actions(N, tier, reduced=False):
    acts = []
    for to in ('first', 'last'):
        for nz in (True, False):
            acts.append(('canonize_', to, nz))
    for to in ('first', 'last'):
        acts.append(('absorb_central_', to))
    opts_list = [0] if reduced else [0, 1, 2]
    for oi in opts_list:
        for nz in (True, False):
            acts.append(('diagonalize_central_', oi, nz))
            for to in ('first', 'last'):
                acts.append(('truncate_', to, oi, nz))
    if not reduced:
        for n in range(N):
            for to in ('first', 'last'):
                for nz in (True, False):
                    acts.append(('orthogonalize_site_', n, to, nz))
    return acts


def do(psi, a):
    op = a[0]
    if op == 'canonize_':
        psi.canonize_(to=a[1], normalize=a[2])
    elif op == 'absorb_central_':
        psi.absorb_central_(to=a[1])
    elif op == 'diagonalize_central_':
        return psi.diagonalize_central_(opts_svd=dict(NONBINDING[a[1]]), normalize=a[2])
    elif op == 'truncate_':
        return psi.truncate_(to=a[1], opts_svd=dict(NONBINDING[a[2]]), normalize=a[3])
    elif op == 'orthogonalize_site_':
        psi.orthogonalize_site_(n=a[1], to=a[2], normalize=a[3])
    return None


def groups(tier, seed):
    gs = []
    Ns = (1, 2, 3) if tier == 'quick' else (1, 2, 3, 4)
    for fam, sym in FAMS:
        for N in Ns:
            if fam == 'spinful' and N > 2:
                continue
            gs.append({'kind': 'moves', 'fam': fam, 'sym': sym, 'N': N, 'level': 1 if N <= 2 else 2})
        for N in ((2, 3, 4) if tier == 'quick' else (2, 3, 4, 5)):
            if fam == 'spinful' and N > 3:
                continue
            gs.append({'kind': 'binding', 'fam': fam, 'sym': sym, 'N': N, 'level': 1})
    return gs


def run_group(g, acc):
    loc = MG.Local(g['fam'], g['sym'])
    if g['kind'] == 'moves':
        return run_moves(g, loc, acc)
    return run_binding(g, loc, acc)


def isometry(A, to, nr_phys):
    cl = ((1, 2) if nr_phys == 1 else (1, 2, 3)) if to == 'first' else ((0, 1) if nr_phys == 1 else (0, 1, 3))
    x = yastn.tensordot(A, A.conj(), axes=(cl, cl))
    d = x.to_numpy()
    return d.shape[0] == d.shape[1] and np.allclose(d, np.eye(d.shape[0]), atol=1e-10)


def invariant(psi, loc, ref, refn, all_unnormalized, a, ret):
    """check after action a; returns message or None"""
    st, cur = TC.call(represented, psi, loc)
    if st != 'ok':
        return f"state cannot be contracted after {a}: {cur}"
    nc = np.linalg.norm(cur)
    ov = abs(np.vdot(ref, cur))
    if abs(ov - refn * nc) > TOL * max(1.0, refn * nc):
        return f"after {a} the represented state is not on the ray of the initial state: |<psi0|psi>| = {ov}, |psi0||psi| = {refn * nc}"
    if all_unnormalized and not np.allclose(np.abs(np.vdot(ref, cur)), refn ** 2, rtol=1e-9, atol=1e-10 * max(1, refn ** 2)):
        return f"after {a} (normalize=False throughout) the norm changed: <psi0|psi> = {np.vdot(ref, cur)}, |psi0|^2 = {refn ** 2}"
    if all_unnormalized and abs(nc - refn) > 1e-9 * max(1.0, refn):
        return f"after {a} (normalize=False throughout) the norm changed from {refn} to {nc}"
    op = a[0]
    if op in ('canonize_', 'truncate_'):
        to = a[1]
        nz = a[2] if op == 'canonize_' else a[3]
        if psi.pC is not None:
            return f"{a} leaves a central block"
        if nz and abs(nc - 1) > 1e-9:
            return f"after {a} with normalize=True the state has norm {nc}"
        for n in range(psi.N):
            if not isometry(psi.A[n], to, psi.nr_phys):
                return f"after {a} site {n} is not an isometry in direction '{to}'"
        if not psi.is_canonical(to=to):
            return f"after {a} is_canonical(to='{to}') is False"
        if op == 'truncate_' and ret is not None and abs(ret) > 1e-7:
            return f"{a} with non-binding limits reports a discarded weight {ret}"
    if op == 'orthogonalize_site_':
        n, to = a[1], a[2]
        if not isometry(psi.A[n], to, psi.nr_phys):
            return f"after {a} site {n} is not an isometry in direction '{to}'"
    if op == 'diagonalize_central_' and ret is not None and abs(ret) > 1e-7:
        return f"{a} with non-binding limits reports a discarded weight {ret}"
    return None


def observers(psi, loc, cur):
    """norm, Schmidt values, entropies vs numpy SVD of the dense represented state; object left unchanged"""
    if psi.pC is not None:
        return None
    before = snapshot(psi)
    N, d = psi.N, loc.d ** psi.nr_phys
    nc = np.linalg.norm(cur)
    st, v = TC.call(psi.norm)
    if st != 'ok' or abs(v - nc) > 1e-9 * max(1.0, nc):
        return f"norm() = {v}, dense norm {nc}"
    st, SV = TC.call(psi.get_Schmidt_values)
    if st != 'ok':
        return f"get_Schmidt_values raised {SV}"
    if len(SV) != N + 1:
        return f"get_Schmidt_values returned {len(SV)} spectra for {N + 1} cuts"
    if psi.nr_phys == 1:
        M = cur.reshape((loc.d,) * N)
    else:
        M = cur.reshape((loc.d,) * (2 * N))
    ents = []
    for cut in range(N + 1):
        k = cut * psi.nr_phys
        mat = M.reshape(int(np.prod(M.shape[:k])) if k else 1, -1)
        ref = np.linalg.svd(mat, compute_uv=False) / (nc if nc else 1)
        got = np.sort(np.concatenate([np.asarray(SV[cut][t + t]) for t in SV[cut].get_legs(0).t]))[::-1] if SV[cut].size else np.array([])
        r = ref[ref > 1e-9]
        g_ = got[got > 1e-9]
        if len(r) != len(g_) or not np.allclose(r, g_, atol=1e-8):
            return f"Schmidt values across cut {cut}: {g_} vs dense SVD {r}"
        p = r ** 2
        ents.append((float(-np.sum(p * np.log2(p))) if len(p) else 0.0, float(np.log2(np.sum(p ** 2)) / (1 - 2)) if len(p) else 0.0))
    for alpha, idx in ((1, 0), (2, 1)):
        st, E = TC.call(lambda: psi.get_entropy(alpha=alpha))
        if st != 'ok':
            return f"get_entropy(alpha={alpha}) raised {E}"
        Ev = [float(e) for e in E]
        if len(Ev) != N + 1 or not np.allclose(Ev, [e[idx] for e in ents], atol=1e-7):
            return f"get_entropy(alpha={alpha}) = {Ev}, dense {[e[idx] for e in ents]}"
    if snapshot(psi) != before:
        return "an observer (norm / get_Schmidt_values / get_entropy) modified the object"
    return None


def snapshot(psi):
    from vmc.gen import programs as P
    return (psi.pC, repr(psi.factor), tuple((k, h64(P.canon(v))) for k, v in sorted(psi.A.items(), key=lambda kv: str(kv[0]))))


def run_moves(g, loc, acc):
    N = g['N']
    tier = acc.tier
    acts = actions(N, tier)
    acts_red = actions(N, tier, reduced=True)
    maxdepth = 3 if tier != 'quick' else 2
    for sname, psi0 in initial_states(loc, N, acc.seed, tier):
        st, ref = TC.call(represented, psi0, loc)
        if st != 'ok':
            acc.fail({'fam': g['fam'], 'sym': g['sym'], 'N': N, 'state': sname}, f"harness cannot contract initial state: {ref}")
            continue
        refn = np.linalg.norm(ref)
        if refn < 1e-9:
            continue
        nontriv = max(psi0.get_bond_dimensions()) >= 2
        for gname, start in gauges(psi0):
            base = {'kind': 'moves', 'fam': g['fam'], 'sym': g['sym'], 'N': N, 'state': sname, 'gauge': gname}
            st, cur0 = TC.call(represented, start, loc)
            if st != 'ok' or not np.allclose(cur0, ref, atol=1e-9 * max(1, refn)):
                acc.fail(base, f"gauge preparation {gname} changed the state (harness or library): {cur0 if st != 'ok' else ''}")
                continue
            acc.states += 1
            m = observers(start, loc, cur0)
            if m:
                acc.fail(dict(base, seq=[]), m)

            def rec(seq, depth, allun):
                for a in (acts if depth < 2 else acts_red):
                    acc.check_time()
                    psi = start.copy()
                    for b in seq:
                        do(psi, b)
                    st, ret = TC.call(do, psi, a)
                    acc.transitions += 1
                    nz_flag = a[-1] if a[0] != 'absorb_central_' else None
                    un = allun and (nz_flag is False or a[0] == 'absorb_central_')
                    acc.ev(repr((base, seq, a)), nontriv and st == 'ok', (a[0], st))
                    if st == 'yerr':
                        acc.cnt['rejected_by_contract'] += 1
                        continue
                    if st != 'ok':
                        acc.fail(dict(base, seq=seq + [list(a)]), f"{a} raised {ret} after {seq}")
                        continue
                    m = invariant(psi, loc, ref, refn, un, a, ret)
                    if not m and (depth == 0 or (depth == 1 and a[0] in ('canonize_', 'truncate_') and tier != 'quick')):
                        cur = represented(psi, loc)
                        m = observers(psi, loc, cur)
                    if m:
                        acc.fail(dict(base, seq=seq + [list(a)]), m + f" (sequence {seq + [list(a)]} from gauge {gname} of {sname})")
                        continue
                    acc.states += 1
                    if acc.states % 401 == 0:
                        acc.sample(dict(base, seq=seq + [list(a)]))
                    if depth + 1 < maxdepth and (N <= 2 or depth + 1 < 2 or a[0] in ('canonize_', 'orthogonalize_site_')):
                        rec(seq + [list(a)], depth + 1, un)
            rec([], 0, True)


def run_binding(g, loc, acc):
    N = g['N']
    charges = loc.charges_N(N)
    mid = charges[len(charges) // 2]
    states = []
    for D in (4, 8):
        psi = MG.random_state(loc, N, mid, D, (acc.seed, 'c08b', loc.fam, loc.sym, N, D), integer=False)
        if psi is not None:
            states.append((f'rand(D={D})', psi))
    O = MG.random_operator(loc, N, 3, (acc.seed, 'c08bO', loc.fam, loc.sym, N), integer=False) if N <= 3 else None
    if O is not None:
        states.append(('mpo', O))
    for sname, psi0 in states:
        ref = represented(psi0, loc)
        refn = np.linalg.norm(ref)
        for to in ('last', 'first'):
            for oi, opts in enumerate(BINDING):
                for nz in (False, True):
                    acc.check_time()
                    case = {'kind': 'binding', 'fam': g['fam'], 'sym': g['sym'], 'N': N, 'state': sname, 'to': to, 'opts': oi, 'normalize': nz}
                    msg, binding = binding_case(psi0, loc, ref, refn, to, opts, nz)
                    acc.transitions += 1
                    acc.states += 1
                    acc.ev(repr(case), binding and msg is None, (to, oi, nz, msg is None))
                    acc.cnt['binding_runs'] += 1
                    if binding:
                        acc.cnt['binding_effective'] += 1
                    if msg:
                        acc.fail(case, msg)
                    elif acc.cnt['binding_runs'] % 53 == 0:
                        acc.sample(case)


def binding_case(psi0, loc, ref, refn, to, opts, nz):
    psi = psi0.copy()
    psi.canonize_(to='first' if to == 'last' else 'last', normalize=False)     # documented opposite canonical form
    st, delta = TC.call(lambda: psi.truncate_(to=to, opts_svd=dict(opts), normalize=nz))
    if st != 'ok':
        return f"truncate_(to={to}, {opts}, normalize={nz}) raised {delta}", False
    cur = represented(psi, loc)
    nc = np.linalg.norm(cur)
    dist = np.linalg.norm(ref - cur) / refn if not nz else None
    binding = delta > 1e-9
    Ds = psi.get_bond_dimensions()
    if 'D_total' in opts and max(Ds) > opts['D_total']:
        return f"truncate_ {opts}: bond dimensions {Ds} exceed D_total", binding
    if 'D_block' in opts:
        for tD in psi.get_bond_charges_dimensions():
            if any(v > opts['D_block'] for v in tD.values()):
                return f"truncate_ {opts}: sector dimensions {tD} exceed D_block", binding
    if not psi.is_canonical(to=to):
        return f"after truncate_(to={to}) the state is not canonical", binding
    if not nz:
        if abs(delta - dist) > 1e-8:
            return (f"truncate_(to={to}, {opts}, normalize=False) reports discarded weight {delta} but the relative distance "
                    f"|psi - phi|/|psi| is {dist}"), binding
        if abs(nc - refn * np.sqrt(max(0.0, 1 - delta ** 2))) > 1e-8 * max(1.0, refn):
            return f"norm kept after truncation {nc} != |psi| sqrt(1 - delta^2) = {refn * np.sqrt(max(0.0, 1 - delta ** 2))}", binding
    else:
        if abs(nc - 1) > 1e-9:
            return f"truncate_(normalize=True) leaves norm {nc}", binding
        ov = abs(np.vdot(ref, cur)) / refn
        if abs(ov - np.sqrt(max(0.0, 1 - delta ** 2))) > 1e-8:
            return f"<psi|phi>/|psi| = {ov} but sqrt(1 - delta^2) = {np.sqrt(max(0.0, 1 - delta ** 2))}", binding
    if psi0.N == 2 and not nz:
        # one cut: Eckart-Young - the kept values are the largest ones
        d = loc.d ** psi0.nr_phys
        sv = np.linalg.svd(ref.reshape(d, d), compute_uv=False)
        kept = np.linalg.svd(cur.reshape(d, d), compute_uv=False)
        k = int(np.sum(kept > 1e-10))
        if 'D_block' not in opts and abs(np.linalg.norm(ref - cur) - np.sqrt(np.sum(sv[k:] ** 2))) > 1e-8 * max(1.0, refn):
            return (f"truncation across the single cut is not optimal: distance {np.linalg.norm(ref - cur)}, "
                    f"norm of the {len(sv) - k} smallest singular values {np.sqrt(np.sum(sv[k:] ** 2))}"), binding
    return None, binding


def replay(case):
    loc = MG.Local(case['fam'], case['sym'])
    seed = case.get('seed', 0)
    N = case['N']
    if case['kind'] == 'binding':
        acc = _Mini()
        acc.seed = seed
        run_binding({'N': N, 'fam': case['fam'], 'sym': case['sym']}, loc, acc)
        return [v['msg'] for v in acc.violations if all(v['case'].get(k) == case.get(k) for k in ('state', 'to', 'opts', 'normalize'))][:2]
    for sname, psi0 in initial_states(loc, N, seed, 'quick'):
        if sname != case['state']:
            continue
        ref = represented(psi0, loc)
        refn = np.linalg.norm(ref)
        for gname, start in gauges(psi0):
            if gname != case['gauge']:
                continue
            psi = start.copy()
            allun = True
            msgs = []
            seq = [tuple(a) for a in case.get('seq', [])]
            for i, a in enumerate(seq):
                st, ret = TC.call(do, psi, a)
                nz_flag = a[-1] if a[0] != 'absorb_central_' else None
                allun = allun and (nz_flag is False or a[0] == 'absorb_central_')
                if st == 'yerr':
                    return []
                if st != 'ok':
                    return [f"{a} raised {ret}"]
                if i == len(seq) - 1:
                    m = invariant(psi, loc, ref, refn, allun, a, ret)
                    if not m:
                        m = observers(psi, loc, represented(psi, loc))
                    if m:
                        msgs.append(m)
            if not seq:
                m = observers(start, loc, represented(start, loc))
                if m:
                    msgs.append(m)
            return msgs
    return []


class _Mini:
    def __init__(self):
        self.violations, self.cnt = [], collections.Counter()
        self.evaluations = self.states = self.transitions = 0
        self.tier, self.seed = 'quick', 0
        self.nontrivial, self.outcomes = set(), set()

    def ev(self, *a, **k):
        pass

    def fail(self, case, msg, key=None):
        self.violations.append({'case': case, 'msg': msg})

    def sample(self, c):
        pass

    def check_time(self):
        pass


def finalize(summary, tier):
    errs = []
    c = summary['cnt']
    if summary['transitions'] < 20000 or c.get('binding_effective', 0) < 100 or c.get('rejected_by_contract', 0) < 100:
        errs.append(f"vacuity: transitions={summary['transitions']} {dict(c)}")
    return errs
