"""
C15 - Operations never modify their operands; copies are independent.

(a) explicit-state BFS over operation sequences (alphabet of gen/programs + observer calls below); before and
    after EVERY call the canonical bytes of the receiver, of every argument and of every live ancestor tensor
    (results share storage with operands by design) are compared.
(b) aliasing histories: y = creator(x) for every copy/view creator, then every in-place operation on one side;
    copies/clones must be unaffected in both directions; views may alias, but no non-in-place call may write
    through the alias (checked by (a) from view states with the origin as a live ancestor).
(c) container level (MPS/MPO, PEPS, environments): see c15_containers.
"""
import collections
import copy as pycopy

import numpy as np
import yastn

from vmc.engine.runner import h64
from vmc.gen import configs as GC, legs as GL, tensors as GT, programs as P
from vmc.models import groups as G
from . import _tcommon as TC
from . import c02

PROPERTY_ID = 'C15'
LEVEL = 'model_checking'
RULE = ("explicit-state BFS over operation sequences with byte snapshots of receiver, arguments and all live ancestors "
        "around every call; plus aliasing histories (creator x in-place op x side); state = canonical bytes of the "
        "tensor; non-trivial = operand with >= 2 blocks; one evaluation = one observed call")
ASSUMPTIONS = ["documented in-place API = set_block, __setitem__, _fill_tensor, methods ending in '_'",
               "shallow_copy and view-returning operations are allowed to alias storage"]
BUDGET = {'quick': 150, 'thorough': 1200}


def snap(o):
    """canonical snapshot (hash) of an argument: tensors, legs, numbers, and plain containers recursively"""
    return h64(_snap(o))


def _snap(o):
    if isinstance(o, yastn.Tensor):
        return P.canon(o)
    if isinstance(o, np.ndarray):
        return repr((o.shape, str(o.dtype))).encode() + o.tobytes()
    if isinstance(o, dict):
        return b'{' + b','.join(_snap(k) + b':' + _snap(v) for k, v in o.items()) + b'}'
    if isinstance(o, (list, tuple)):
        return (b'[' if isinstance(o, list) else b'(') + b','.join(_snap(v) for v in o) + b']'
    return repr(o).encode()


# ---- observer calls: public API that returns something new and is not part of the BFS successor alphabet ----

def observers(x):
    """list of (name, thunk returning (args_to_observe, call))"""
    r = x.ndim
    out = []
    cfg = x.config

    def add(name, args, f):
        out.append((name, args, f))
    add('to_numpy', [x], lambda: x.to_numpy())
    add('to_dense', [x], lambda: x.to_dense())
    add('to_nonsymmetric', [x], lambda: x.to_nonsymmetric())
    add('to_dict', [x], lambda: x.to_dict())
    add('to_dict_level0', [x], lambda: x.to_dict(level=0))
    add('save_to_dict', [x], lambda: x.save_to_dict())
    add('get_legs', [x], lambda: x.get_legs())
    add('get_shape', [x], lambda: x.get_shape())
    add('get_blocks_charge', [x], lambda: (x.get_blocks_charge(), x.get_blocks_shape(), x.get_signature(),
                                            x.get_tensor_charge(), x.get_rank(), x.get_dtype(), x.is_complex()))
    add('str', [x], lambda: str(x))
    add('item', [x], lambda: x.item())
    add('to_number', [x], lambda: x.to_number())
    add('is_consistent', [x], lambda: x.is_consistent())
    add('allclose', [x], lambda: yastn.allclose(x, x))
    add('are_independent', [x], lambda: x.are_independent(x.copy()))
    add('imag', [x], lambda: x.imag())
    add('exp', [x], lambda: x.exp(step=0.5))
    ax_ = abs(x)
    add('sqrt', [ax_], lambda: ax_.sqrt())
    add('rsqrt', [ax_], lambda: ax_.rsqrt(cutoff=0.5))
    add('reciprocal', [x], lambda: x.reciprocal(cutoff=0.5))
    add('pow', [x], lambda: x ** 2)
    add('truediv', [x], lambda: x / 2)
    add('rmul', [x], lambda: 3 * x)
    add('cmp', [x], lambda: (x > 0, x < 0, x >= 0, x <= 0) if not x.is_complex() else None)
    add('to', [x], lambda: x.to(dtype='complex128'))
    add('detach', [x], lambda: x.detach())
    add('clone', [x], lambda: x.clone())
    add('shallow_copy', [x], lambda: x.shallow_copy())
    add('T_H', [x], lambda: (x.T, x.H))
    add('move_leg', [x], lambda: x.move_leg(0, -1) if r else None)
    add('split_data_and_meta', [x], lambda: yastn.split_data_and_meta(x.to_dict(level=0)))
    add('entropy', [x], lambda: yastn.entropy(x) if x.isdiag else None)
    add('norm_inf', [x], lambda: x.norm(p='inf'))
    y = x.copy()
    add('add_fn', [x, y], lambda: yastn.add(x, y, x, amplitudes=[1, 2, None]))
    add('matmul_H', [x], lambda: x @ x.H if r in (1, 2) and not x.isdiag else None)
    if r >= 1:
        add('swap_gate', [x], lambda: x.swap_gate(axes=(0, r - 1)))
        add('swap_gate_charge', [x], lambda: x.swap_gate(axes=(0,), charge=x.n))
        inds = [list(range(1, r + 1)), list(range(1, r + 1))]
        ts = [x, y]
        conjs = [0, 1]
        add('ncon_lists', [ts, inds, conjs], lambda: yastn.ncon(ts, inds, conjs=conjs))
        add('einsum', [x, y], lambda: yastn.einsum('a,*a->' if r == 1 else None, x, y) if r == 1 else None)
    if x.isdiag:
        S = abs(x)          # the object actually passed is the one observed
        Mk = S > 1
        Db = {t[:cfg.sym.NSYM]: 1 for t in S.get_blocks_charge()}
        add('truncation_mask', [S], lambda: yastn.truncation_mask(S, D_total=1))
        add('truncation_mask_tol', [S], lambda: yastn.truncation_mask(S, tol=0.5, D_block=1))
        add('truncation_mask_block', [S, Db], lambda: S.truncation_mask(tol_block=0.6, D_block=Db))
        add('truncation_mask_multiplets', [S], lambda: yastn.truncation_mask_multiplets(S, D_total=2, tol=0.1))
        add('bitwise_not', [Mk], lambda: Mk.bitwise_not())
        add('apply_mask_diag', [Mk, S], lambda: Mk.apply_mask(S, axes=0))
        add('broadcast_self', [x], lambda: x.broadcast(x, axes=0))
    elif r >= 1 and not x.get_legs(0).is_fused():
        leg = x.get_legs(0)
        d = yastn.ones(config=cfg, legs=[leg.conj(), leg], isdiag=True) if leg.s == -1 else \
            yastn.ones(config=cfg, legs=[leg, leg.conj()], isdiag=True)
        add('broadcast', [d, x], lambda: d.broadcast(x, axes=0))
        add('apply_mask', [d, x], lambda: d.apply_mask(x, axes=0))
        legs_arg = {0: leg}
        add('to_numpy_legs', [x, legs_arg], lambda: x.to_numpy(legs=legs_arg))
    if r >= 2 and not x.isdiag:
        ax = (tuple(range(r // 2)), tuple(range(r // 2, r)))
        add('eig_gram', [x], lambda: _eig_gram(x))
        add('svd_trunc_opts', [x], lambda: yastn.svd_with_truncation(x, axes=ax, D_total=2, tol=1e-3, D_block=1))
        add('svd_fix_signs', [x], lambda: yastn.svd(x, axes=ax, fix_signs=True))
        add('eigh_which', [x], lambda: _eigh_all(x))
        pos = {(0,) * r: x, (1,) * r: y}
        add('block_dict', [pos], lambda: yastn.block(pos))
        unroll = {1: 2}
        add('contract_with_unroll', [x, y, unroll], lambda: _cwu(x, y, unroll))
    return out


def _eig_gram(x):
    k = 1
    ax = tuple(range(k, x.ndim))
    g = yastn.tensordot(x, x, axes=(ax, ax), conj=(0, 1))
    return yastn.eig(g, axes=(0, 1))


def _eigh_all(x):
    ax = tuple(range(1, x.ndim))
    g = yastn.tensordot(x, x, axes=(ax, ax), conj=(0, 1))
    snaps = snap(g)
    out = []
    for which in ('SR', 'LR', 'LM', 'SM'):
        out.append(yastn.eigh(g, axes=(0, 1), which=which))
        out.append(yastn.eigh_with_truncation(g, axes=(0, 1), which=which, D_total=1))
    if snap(g) != snaps:
        raise Mutated('eigh/eigh_with_truncation modified its argument')
    return out


class Mutated(Exception):
    pass


def _cwu(x, y, unroll):
    r = x.ndim
    ia = tuple(range(1, r + 1))
    yc = y.conj()
    args = (x, ia, yc, ia, ())
    before = snap(unroll)
    path, _ = yastn.get_contraction_path(*args, unroll=unroll)
    if snap(unroll) != before:
        raise Mutated("get_contraction_path modified the caller's unroll dictionary")
    out = yastn.contract_with_unroll(*args, unroll=unroll, optimize=path)
    return out


# -------------------------------------------------------------------------------------------------

def groups(tier, seed):
    gs = []
    for sym in GC.SYMS:
        for i, td in enumerate(c02.seeds(sym, tier)):
            r = len(td['s'])
            if r >= 5:
                continue
            depth = 2 if (tier == 'quick' or r >= 4) else 3
            if td.get('structural_only'):
                depth = 2
            gs.append({'kind': 'bfs', 'sym': sym, 'dtype': 'float64' if i % 2 == 0 else 'complex128', 'td': td,
                       'depth': depth, 'level': 1 if r <= 3 else 2})
        gs.append({'kind': 'alias', 'sym': sym, 'dtype': 'float64', 'level': 1})
    from . import c15_containers as CC
    gs.extend(CC.groups(tier))
    return gs


def run_group(g, acc):
    if g['kind'] == 'bfs':
        return run_bfs(g, acc)
    if g['kind'] == 'alias':
        return run_alias(g, acc)
    from . import c15_containers as CC
    return CC.run_group(g, acc)


def observe_call(acc, case, name, args, f, live):
    """run f; all objects in args and live must keep their snapshot"""
    before = [snap(a) for a in args]
    st, out = TC.call(f)
    acc.transitions += 1
    acc.ev(None, False, (name, st))
    acc.cnt['api_' + name] += 1
    if st == 'exc':
        if 'Mutated' in out:
            acc.fail(dict(case, call=name), f"{name}: {out}")
        else:
            acc.cnt['observer_exception_' + name] += 1
        return st, out
    after = [snap(a) for a in args]
    for k, (b, a_) in enumerate(zip(before, after)):
        if b != a_:
            acc.fail(dict(case, call=name), f"{name} modified its argument #{k} ({type(args[k]).__name__})")
    for t, hsh, how in live:
        if snap(t) != hsh:
            acc.fail(dict(case, call=name), f"{name} modified a live tensor that shares history with its operand ({how})")
    return st, out


def run_bfs(g, acc):
    sym = g['sym']
    cfg = GC.make(sym, dtype=g['dtype'])
    x0 = GT.build(cfg, sym, g['td'], acc.seed).x
    level = 0 if acc.tier == 'quick' else 1
    seen = {h64(P.canon(x0))}
    frontier = collections.deque([(x0, [], [])])
    acc.states += 1
    while frontier:
        x, hist, anc = frontier.popleft()
        live = anc + [(x, snap(x), 'receiver')]
        case = {'kind': 'bfs', 'sym': sym, 'dtype': g['dtype'], 'td': g['td'], 'hist': hist}
        nontriv = len(x.get_blocks_charge()) >= 2
        # observer calls on every state
        if len(hist) <= g['depth'] - 1:   # observer calls on every state that is expanded further
            for name, args, f in observers(x):
                acc.check_time()
                observe_call(acc, case, name, args, f, live)
        if len(hist) >= g['depth']:
            continue
        for act in P.enabled(x, level):
            acc.check_time()
            c2 = dict(case, action=act)
            st, outs = observe_call(acc, c2, act['op'], [x], lambda: P.apply(x, act), live)
            if st != 'ok':
                continue
            for lab, y, _ in outs:
                if lab == 'num' or not isinstance(y, yastn.Tensor):
                    continue
                k = h64(P.canon(y))
                if k not in seen:
                    seen.add(k)
                    acc.states += 1
                    if nontriv:
                        acc.nontrivial.add(k)
                    if acc.states % 499 == 0:
                        acc.sample(dict(case, action=act, successor=lab))
                    frontier.append((y, hist + [[act, lab]], (anc + [(x, snap(x), f'ancestor at depth {len(hist)}')])[-3:]))


# ---- (b) aliasing histories ---------------------------------------------------------------------

CREATORS_INDEPENDENT = ['copy', 'clone']
CREATORS_VIEW = ['shallow_copy', 'transpose', 'conj', 'flip_signature', 'add_leg', 'real', 'mul1', 'to_same', 'detach',
                 'drop_leg_history', 'fuse_meta', 'remove_zero_blocks', 'diag2', 'moveaxis_same', 'conj_blocks', 'T']


def create(x, how):
    r = x.ndim
    if how == 'copy':
        return x.copy()
    if how == 'clone':
        return x.clone()
    if how == 'shallow_copy':
        return x.shallow_copy()
    if how == 'transpose':
        return x.transpose(tuple(range(r))[::-1])
    if how == 'T':
        return x.T
    if how == 'conj':
        return x.conj()
    if how == 'conj_blocks':
        return x.conj_blocks()
    if how == 'flip_signature':
        return x.flip_signature()
    if how == 'add_leg':
        return x.add_leg(axis=0)
    if how == 'real':
        return x.real()
    if how == 'mul1':
        return x * 1
    if how == 'to_same':
        return x.to(dtype=x.yastn_dtype)
    if how == 'detach':
        return x.detach()
    if how == 'drop_leg_history':
        return x.drop_leg_history()
    if how == 'fuse_meta':
        return x.fuse_legs(axes=(tuple(range(r)),), mode='meta') if r >= 2 else x.shallow_copy()
    if how == 'remove_zero_blocks':
        return x.remove_zero_blocks()
    if how == 'diag2':
        return x.diag().diag() if x.isdiag else x.shallow_copy()
    if how == 'moveaxis_same':
        return x.moveaxis(0, 0) if r else x.shallow_copy()
    raise KeyError(how)


def inplace_ops(x):
    """list of (name, function(t)) modifying t in place via the documented in-place API"""
    ops = []
    if x.ndim_n == 0:
        return [('set_block_scalar', lambda t: t.set_block(val=[5.0]))]
    legs = x.get_legs(native=True)
    keys = x.get_blocks_charge()
    if not keys:
        return ops
    nsym = x.config.sym.NSYM
    rtr = np.argsort(x.trans).tolist()

    def logical_key(t_):
        # the first stored block, expressed as a logical key through the public legs of the tensor
        sig = t_.get_signature(native=True)
        import itertools
        mods = G.moduli(t_.config.sym)
        for key in itertools.product(*[l.t for l in t_.get_legs(native=True)]):
            flat = tuple(c for tt in key for c in tt)
            try:
                t_[flat]
                return flat
            except yastn.YastnError:
                continue
        return None

    def setitem(t_):
        k = logical_key(t_)
        blk = t_[k]
        t_[k] = np.asarray(blk) * 0 + 7

    def view_write(t_):
        k = logical_key(t_)
        t_[k][...] = 9

    def set_block_existing(t_):
        k = logical_key(t_)
        if t_.trans != tuple(range(t_.ndim_n)):
            return setitem(t_)      # set_block addresses native storage order; use item assignment on lazy views
        t_.set_block(ts=k, val='ones')

    ops.append(('__setitem__', setitem))
    ops.append(('view_write', view_write))
    ops.append(('set_block', set_block_existing))
    return ops


def run_alias(g, acc):
    sym = g['sym']
    cfg = GC.make(sym, dtype=g['dtype'])
    nch = min(2, len(GL.CHARGES[sym]))
    ms = GL.msize(sym, 2)
    tds = [{'s': [1, -1], 'm': [0, 0], 'n': 0, 'drop': None, 'var': ['fresh']},
           {'s': [1, -1, 1], 'm': [0, ms - 1, 0], 'n': nch - 1, 'drop': None, 'var': ['lazy', [2, 0, 1]]},
           {'s': [1, -1], 'm': [0, 0], 'n': 0, 'drop': None, 'diag': True, 'var': ['fresh']},
           {'s': [1], 'm': [0], 'n': 0, 'drop': None, 'var': ['fresh']}]
    for td in tds:
        for how in CREATORS_INDEPENDENT + CREATORS_VIEW:
            for side in ('source', 'result'):
                x = GT.build(cfg, sym, td, acc.seed).x
                if how == 'diag2' and not x.isdiag:
                    continue
                names = [n for n, _ in inplace_ops(x)]
                for iname in names:
                    acc.check_time()
                    x = GT.build(cfg, sym, td, acc.seed).x
                    case = {'kind': 'alias', 'sym': sym, 'dtype': g['dtype'], 'td': td, 'creator': how, 'side': side,
                            'inplace': iname}
                    st, y = TC.call(create, x, how)
                    if st != 'ok':
                        acc.cnt['alias_creator_rejected'] += 1
                        continue
                    target, other = (x, y) if side == 'source' else (y, x)
                    before_other = P.canon(other)
                    before_val = _value(other)
                    f = dict(inplace_ops(target)).get(iname)
                    if f is None:      # the target holds no block this in-place operation could address
                        acc.cnt['alias_inplace_rejected'] += 1
                        continue
                    st2, r2 = TC.call(f, target)
                    acc.transitions += 1
                    acc.states += 1
                    acc.ev(repr(sorted(case.items())), True, (how, iname, side, st2))
                    if st2 != 'ok':
                        acc.cnt['alias_inplace_rejected'] += 1
                        continue
                    changed = P.canon(other) != before_other
                    if how in CREATORS_INDEPENDENT and changed:
                        acc.fail(case, f"{iname} on the {side} changed the other side of x.{how}()")
                    acc.cnt['alias_' + ('aliased' if changed else 'independent')] += 1
                    # second step: a non in-place call on the modified object must not write through to the other
                    b2 = P.canon(other)
                    for act in ({'op': 'mul', 'c': 2}, {'op': 'conj'}, {'op': 'consume_transpose'}, {'op': 'add_self'},
                                {'op': 'remove_zero_blocks'}):
                        TC.call(P.apply, target, act)
                        acc.transitions += 1
                        if P.canon(other) != b2:
                            acc.fail(dict(case, then=act), f"{act['op']} after {iname} modified the aliased tensor")
    acc.sample({'kind': 'alias', 'sym': sym, 'creators': CREATORS_INDEPENDENT + CREATORS_VIEW})


def _value(t):
    try:
        return t.to_numpy(native=True).tobytes()
    except Exception:
        return None


def replay(case):
    import types
    acc = _Mini()
    if case.get('kind') == 'alias':
        g = {'sym': case['sym'], 'dtype': case['dtype']}
        run_alias(g, acc)
        return [v['msg'] for v in acc.violations if v['case'].get('creator') == case['creator']
                and v['case'].get('inplace') == case['inplace'] and v['case'].get('side') == case['side']
                and v['case'].get('td') == case['td']]
    if case.get('kind') == 'bfs':
        cfg = GC.make(case['sym'], dtype=case['dtype'])
        x = GT.build(cfg, case['sym'], case['td'], case.get('seed', 0)).x
        live = []
        for act, lab in case['hist']:
            live.append((x, snap(x), 'ancestor'))
            outs = P.apply(x, act)
            x = dict((l, y) for l, y, _ in outs)[lab]
        live = live[-3:] + [(x, snap(x), 'receiver')]
        if 'action' in case:
            observe_call(acc, case, case['action']['op'], [x], lambda: P.apply(x, case['action']), live)
        else:
            for name, args, f in observers(x):
                if name == case.get('call'):
                    observe_call(acc, case, name, args, f, live)
        return [v['msg'] for v in acc.violations]
    from . import c15_containers as CC
    return CC.replay(case)


class _Mini:
    def __init__(self):
        self.violations, self.cnt = [], collections.Counter()
        self.evaluations = self.states = self.transitions = 0
        self.tier, self.seed = 'quick', 0
        self.nontrivial, self.outcomes = set(), set()

    def ev(self, *a, **k):
        pass

    def fail(self, case, msg, key=None):
        self.violations.append({'case': case, 'msg': msg, 'key': key})

    def sample(self, c):
        pass

    def check_time(self):
        pass

    def out_of_time(self):
        return False


def api_coverage(cnt):
    covered = {k[4:] for k in cnt if k.startswith('api_')}
    alias = {'mul': '__mul__', 'add_self': '__add__', 'sub_self': '__sub__', 'neg': '__neg__', 'abs': '__abs__',
             'dot_conj': 'tensordot', 'dot_fresh': 'tensordot', 'ncon_self': 'ncon', 'vdot_self': 'vdot',
             'svd_S': 'svd', 'svd_trunc': 'svd_with_truncation', 'eigh_gram': 'eigh', 'eig_gram': 'eig',
             'matmul_H': '__matmul__', 'eigh_which': 'eigh_with_truncation', 'str': '__str__', 'T_H': 'T',
             'block_dict': 'block', 'pow': '__pow__', 'truediv': '__truediv__', 'rmul': '__rmul__', 'cmp': '__lt__',
             'broadcast_self': 'broadcast', 'ncon_lists': 'ncon', 'add_fn': 'add', 'norm_inf': 'norm'}
    names = set(covered) | {alias[c] for c in covered if c in alias}
    inplace = {'set_block', '__setitem__', '_fill_tensor', 'requires_grad_', 'detach_'}
    public = [n for n in vars(yastn.Tensor) if callable(getattr(yastn.Tensor, n, None)) and not n.startswith('_')]
    unc = sorted(n for n in public if n not in names and n not in inplace)
    return sorted(names), unc


def finalize(summary, tier):
    errs = []
    if summary['cnt'].get('alias_aliased', 0) < 5 or summary['cnt'].get('alias_independent', 0) < 5:
        errs.append("vacuity: aliasing exploration did not observe both aliased and independent outcomes")
    if summary['states'] < 2000:
        errs.append(f"vacuity: only {summary['states']} states")
    return errs


def coverage_extra(summary, tier):
    names, unc = api_coverage(summary['cnt'])
    exc = {k: v for k, v in summary['cnt'].items() if k.startswith('observer_exception_')}
    return {'tensor_api_observed': names, 'tensor_api_uncovered': unc, 'observer_calls_rejected': exc}
