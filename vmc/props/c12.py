"""
C12 - Exact PEPS environments give exact expectation values and valid metrics.
Finite grid: states (families x symmetries x finite obc lattices x pure/purified product states x shallow gate
circuits) x environments (EnvCTM after outward expansion, EnvBoundaryMPS for the set-up strings a measurement
needs, EnvBP on loop-free lattices) x measurement methods x ALL sites / bonds (both orientations) / site pairs /
site tuples x operator tuples of zero total charge, against the dense state read through to_tensor() and the
Jordan-Wigner reference.  NTU: every cluster type x every bond: bond metric Hermitian and positive semi-definite;
evolution_step_ with non-binding truncation (every cluster type, bond in both orientations, 2- and 3-site gates,
method, initialization, fix_metric) reproduces the dense-evolved ray and reports a round-off truncation error.
"""
import collections
import itertools

import numpy as np
import yastn
import yastn.tn.fpeps as fpeps
from yastn import YastnError

from vmc.engine.runner import h64
from vmc.models import jw as JW
from vmc.gen import pepsgen as PG
from . import _tcommon as TC

PROPERTY_ID = 'C12'
LEVEL = 'exploration'
RULE = ("finite grid; one evaluation = one measured value (environment, method, operator tuple, site/bond/pair/tuple) compared "
        "with the dense expectation value, or one bond metric, or one evolution step; non-trivial = the reference value is "
        "neither 0 nor 1 (|x|>1e-6, |x-1|>1e-6) / the metric has more than one block / the gate changes the state; "
        "distinct by hash of the full descriptor")
ASSUMPTIONS = ["<O_0(s_0) O_1(s_1) ...> means the ordered product of Jordan-Wigner embedded operators (the last one acts first)",
               "EnvCTM is exact after max(Nx, Ny) expand_outward_() calls from init='eye' (probed; one further call must not change results)",
               "EnvBoundaryMPS with opts_svd D_total=4096, tol=1e-14 does not truncate on these lattices",
               "measure_nsite of EnvBoundaryMPS truncates internally with D_total taken from the stored boundary MPS and offers no "
               "option: a deviation that disappears when the same worker is given a non-binding opts_svd is 'truncation binds', not a violation",
               "tolerances: expectation values 1e-9; metric hermiticity/negativity 1e-10 relative; evolved ray 1e-7, truncation error 1e-7"]
BUDGET = {'quick': 230, 'thorough': 1800}
TOL = 1e-9

LATS_QUICK = [(1, 2), (2, 1), (1, 3), (3, 1), (2, 2), (2, 3), (3, 2)]
LATS_MORE = [(1, 4), (4, 1), (3, 3), (2, 4), (4, 2)]
SVD_EXACT = {'D_total': 4096, 'tol': 1e-14}


def heavy(fam):
    return fam in ('spinful', 'tJ')


def allowed(fam, sym, dims, purif, tier):
    N = dims[0] * dims[1]
    if heavy(fam):
        lim = 4 if not purif else 3
        if tier == 'quick' and sym not in ('U1xU1', 'U1xU1xZ2'):
            lim = 3
        return N <= lim
    if tier == 'quick':
        return N <= 6
    return N <= (9 if fam == 'spinless' and not purif else 8 if not purif else 6)


def groups(tier, seed):
    gs = []
    lats = LATS_QUICK + (LATS_MORE if tier != 'quick' else [])
    for fam, sym in PG.PEPS_FAMILIES:
        for dims in lats:
            N = dims[0] * dims[1]
            for spec in ('pure', 'purif'):
                if not allowed(fam, sym, dims, spec == 'purif', tier):
                    continue
                variants = (0, 1) if tier != 'quick' else ((seed + N + (spec == 'purif')) % 2,)
                for var in variants:
                    st = {'fam': fam, 'sym': sym, 'dims': list(dims), 'spec': spec, 'var': var}
                    lvl = 1 if N <= 4 else 2
                    for env in ('ctm', 'bmps') + (('bp',) if 1 in dims else ()):
                        if env == 'ctm' and N >= 6:
                            for part in range(3):
                                gs.append(dict(st, kind='measure', env=env, part=part, parts=3, level=lvl))
                        else:
                            gs.append(dict(st, kind='measure', env=env, part=0, parts=1, level=lvl))
                    if N >= 2 and (tier != 'quick' or not heavy(fam) or N <= 3):
                        gs.append(dict(st, kind='metric', level=lvl))
                        if N <= 4 or (spec == 'pure' and not heavy(fam)):
                            gs.append(dict(st, kind='evol', level=lvl))
    # NTU metrics on the larger lattices, where second-ring sites of a cluster lie partly inside and partly outside the lattice
    if tier == 'quick':
        for fam, sym in (('spinless', 'U1'), ('spinless', 'Z2'), ('spin12', 'Z2')):
            for dims in ((3, 3), (2, 4), (4, 2)):
                for var in (0, 1):
                    gs.append({'fam': fam, 'sym': sym, 'dims': list(dims), 'spec': 'pure', 'var': var, 'kind': 'metric', 'level': 2})
    # belief propagation on loop-free STATES: gates on the bonds of a spanning tree of a 2x3 / 3x2 / 3x3 lattice only
    for fam, sym in (('spinless', 'U1'), ('spinless', 'Z2'), ('spin12', 'Z2')):
        for dims in ((2, 3), (3, 2), (3, 3)):
            for tree in range(len(TREES)):
                gs.append({'fam': fam, 'sym': sym, 'dims': list(dims), 'spec': 'pure', 'var': 0, 'kind': 'bptree', 'tree': tree, 'level': 2})
    cost = lambda g: -(g['dims'][0] * g['dims'][1]) ** 2 * (4 if heavy(g['fam']) else 1) * (2 if g['kind'] == 'evol' else 1)
    gs.sort(key=cost)
    return gs


def run_group(g, acc):
    {'measure': run_measure, 'metric': run_metric, 'evol': run_evol, 'bptree': run_bptree}[g['kind']](g, acc)


# spanning trees of an Nx x Ny lattice, as functions (Nx, Ny) -> list of bonds
def _snake_rows(Nx, Ny):
    b = [((x, y), (x, y + 1)) for x in range(Nx) for y in range(Ny - 1)]
    return b + [((x, (Ny - 1) if x % 2 == 0 else 0), (x + 1, (Ny - 1) if x % 2 == 0 else 0)) for x in range(Nx - 1)]


def _snake_cols(Nx, Ny):
    b = [((x, y), (x + 1, y)) for y in range(Ny) for x in range(Nx - 1)]
    return b + [(((Nx - 1) if y % 2 == 0 else 0, y), ((Nx - 1) if y % 2 == 0 else 0, y + 1)) for y in range(Ny - 1)]


def _comb_rows(Nx, Ny):      # first column plus every row
    return [((x, 0), (x + 1, 0)) for x in range(Nx - 1)] + [((x, y), (x, y + 1)) for x in range(Nx) for y in range(Ny - 1)]


def _comb_cols(Nx, Ny):      # first row plus every column
    return [((0, y), (0, y + 1)) for y in range(Ny - 1)] + [((x, y), (x + 1, y)) for y in range(Ny) for x in range(Nx - 1)]


def _inverted_u(Nx, Ny):     # up the first column, along the top row, down the other columns; last column hangs from the bottom
    b = [((x, 0), (x + 1, 0)) for x in range(Nx - 1)] + [((0, y), (0, y + 1)) for y in range(Ny - 1)]
    b += [((x, 1), (x + 1, 1)) for x in range(Nx - 1)] if Ny > 1 else []
    b += [((Nx - 1, y), (Nx - 1, y + 1)) for y in range(1, Ny - 1)]
    b += [((x, y), (x + 1, y)) for y in range(2, Ny) for x in range(Nx - 2, -1, -1)][:0]
    # attach the remaining sites of columns >= 2 upwards from the bottom row
    for y in range(2, Ny):
        b += [((x, y), (x + 1, y)) for x in range(Nx - 1)]
        b = [e for e in b if e != ((0, y - 1), (0, y))]
    return b


def _path33(k):
    """the 8 images under the symmetries of the square of the 7-site path (2,0)-(1,0)-(0,0)-(0,1)-(1,1)-(2,1)-(2,2) on 3x3
    (two sites stay unentangled): information has to travel through messages of every direction in turn"""
    base = [(2, 0), (1, 0), (0, 0), (0, 1), (1, 1), (2, 1), (2, 2)]

    def img(s):
        x, y = s
        if k & 1:
            x = 2 - x
        if k & 2:
            y = 2 - y
        if k & 4:
            x, y = y, x
        return (x, y)

    def f(Nx, Ny):
        if (Nx, Ny) != (3, 3):
            return None
        p = [img(s_) for s_ in base]
        return [tuple(sorted((a, b))) for a, b in zip(p[:-1], p[1:])]
    return f


TREES = [_snake_rows, _snake_cols, _comb_rows, _comb_cols, _inverted_u] + [_path33(k) for k in range(8)]


def is_spanning_tree(bonds, Nx, Ny, forest=False):
    sites = {(x, y) for x in range(Nx) for y in range(Ny)}
    if bonds is None or (len(bonds) != len(sites) - 1 and not forest) or len(set(bonds)) != len(bonds):
        return False
    comp = {s: s for s in sites}

    def find(s):
        while comp[s] != s:
            s = comp[s]
        return s
    for a, b in bonds:
        ra, rb = find(a), find(b)
        if ra == rb:
            return False
        comp[ra] = rb
    return forest or len({find(s) for s in sites}) == 1


def run_bptree(g, acc):
    loc = PG.PLocal(g['fam'], g['sym'])
    Nx, Ny = g['dims']
    geo = PG.lattice(g['dims'], 'obc')
    bonds = TREES[g['tree']](Nx, Ny)
    if not is_spanning_tree(bonds, Nx, Ny, forest=True):
        acc.cnt['bptree_not_a_tree_skipped'] += 1
        return
    N = Nx * Ny
    nb = len(loc.basis_vectors())
    psi = PG.make_state(loc, geo, ('pure', tuple((i + acc.seed) % 2 % nb for i in range(N))))
    D = PG.Dense(loc, psi)
    nn, lc = PG.gate_kinds(loc)
    low = [x for x in nn if x[0] in LOWRANK] or nn[:1]
    for k, b in enumerate(bonds):
        kind, par = low[k % len(low)]
        psi.apply_gate_(PG.build_gate(loc, {'kind': kind, 'par': par, 'step': PG.jstep(0.35j + 0.15 * (k % 3) + 0.05 * k), 'sites': [list(b[0]), list(b[1])]}))
    ref = Ref(loc, geo, psi, D)
    gg = dict(g, env='bp')
    rec = Rec(dict(gg, kind='bptree'), acc, ref)
    rec.base['tree'] = g['tree']
    for tol in (1e-12, None):
        def build():
            env = fpeps.EnvBP(psi)
            if tol is None:
                env.iterate_(max_sweeps=4 * N)
            else:
                env.iterate_(max_sweeps=8 * N, diff_tol=tol)
            return env
        st, env = TC.call(build)
        if st != 'ok':
            acc.fail(dict(rec.base, method='build', diff_tol=tol), f"building EnvBP on a tree state failed: {st}: {env}")
            continue
        O = loc.O
        for (name,) in neutral_tuples(loc, 1):
            st, out = TC.call(lambda: env.measure_1site(O[name]))
            if st != 'ok':
                rec.error('measure_1site', (name,), [(0, 0)], st, out, {'diff_tol': tol})
                continue
            for s_ in [tuple(x) for x in geo.sites()]:
                rec.value('measure_1site', (name,), [s_], out.get(s_), {'diff_tol': tol, 'tree': g['tree']})
        for names in pick(neutral_tuples(loc, 2), 3, acc.seed):
            for b in bonds:
                for bb in (b, b[::-1]):
                    st, val = TC.call(lambda: env.measure_nn(O[names[0]], O[names[1]], bond=bb))
                    if st != 'ok':
                        rec.error('measure_nn', names, bb, st, val, {'diff_tol': tol})
                    else:
                        rec.value('measure_nn', names, bb, val, {'diff_tol': tol, 'tree': g['tree']})
    acc.cnt['bptree_states'] += 1
    acc.sample(dict(rec.base))


# ---------------------------------------------------------------------------------------------
# states

LOWRANK = ('hop', 'heis', 'ising')


def make_state(g, seed=0):
    loc = PG.PLocal(g['fam'], g['sym'])
    geo = PG.lattice(g['dims'], 'obc')
    N = g['dims'][0] * g['dims'][1]
    nb = len(loc.basis_vectors())
    if g['spec'] == 'pure':
        spec = ('pure', tuple((i + g['var'] + seed) % 2 % nb if g['fam'] != 'tJ' else (i + g['var'] + seed) % 3 for i in range(N)))
    else:
        spec = ('purif', 'I' if g['var'] == 0 else 'W')
    psi = PG.make_state(loc, geo, spec)
    D = PG.Dense(loc, psi)
    nn, lc = PG.gate_kinds(loc)
    low = [x for x in nn if x[0] in LOWRANK] or nn[:1]
    bonds = [(tuple(b[0]), tuple(b[1])) for b in geo.bonds()]
    sites = [tuple(s) for s in geo.sites()]
    if g['var'] == 1:
        bonds = [b[::-1] for b in bonds[::-1]]
    for k, b in enumerate(bonds):
        kind, par = low[(k + g['var']) % len(low)]
        psi.apply_gate_(PG.build_gate(loc, {'kind': kind, 'par': par, 'step': PG.jstep(0.3j + 0.1 * (k + 1) + 0.07 * g['var']), 'sites': [list(b[0]), list(b[1])]}))
    if g['var'] == 1:
        kind, par = lc[0]
        for k, s in enumerate(sites[::2]):
            psi.apply_gate_(PG.build_gate(loc, {'kind': kind, 'par': par, 'step': PG.jstep(0.2 + 0.1j * k), 'sites': [list(s)]}))
    return loc, geo, psi, D


class Ref:
    def __init__(self, loc, geo, psi, D):
        self.loc, self.geo = loc, geo
        self.idx = PG.site_index(geo)
        self.N = len(self.idx)
        self.spaces = [loc.space] * self.N
        self.v = D(psi)
        self.nrm = np.vdot(self.v, self.v).real
        self._j = {}

    def J(self, name, s):
        k = (name, tuple(s))
        if k not in self._j:
            self._j[k] = JW.jw(self.loc.O[name], self.idx[tuple(s)], self.spaces, self.loc.config)
        return self._j[k]

    def ev(self, names, sites):
        w = self.v
        for name, s in list(zip(names, sites))[::-1]:
            w = self.J(name, s) @ w
        return np.vdot(self.v, w) / self.nrm


def charge(loc, name):
    return tuple(loc.O[name].n)


def neutral_tuples(loc, k, limit=None):
    """operator-name tuples of length k with zero total charge (identity only in the all-identity tuple for k=1)"""
    sym = loc.config.sym
    names = list(loc.O)
    out = []
    for tup in itertools.product(names, repeat=k):
        if k > 1 and 'I' in tup:
            continue
        tot = sym.zero()
        for n in tup:
            tot = sym.add_charges(tot, charge(loc, n)) if sym.NSYM else ()
        if not sym.NSYM or tuple(tot) == tuple(sym.zero()):
            out.append(tup)
    return out


def pick(tuples, n, seed):
    """deterministic sub-selection keeping the charged (fermionic) tuples first"""
    if len(tuples) <= n:
        return tuples
    step = len(tuples) / n
    return [tuples[int(i * step + seed) % len(tuples)] for i in range(n)]


# ---------------------------------------------------------------------------------------------
# measurements

def build_env(kind, psi, dims, setup='lrtb'):
    if kind == 'ctm':
        env = fpeps.EnvCTM(psi, init='eye')
        for _ in range(max(dims)):
            env.expand_outward_()
        return env
    if kind == 'bmps':
        return fpeps.EnvBoundaryMPS(psi, opts_svd=dict(SVD_EXACT), setup=setup)
    if kind == 'bp':
        env = fpeps.EnvBP(psi)
        env.iterate_(max_sweeps=4 * max(dims) + 4, diff_tol=1e-14)
        return env
    raise KeyError(kind)


class Rec:
    """compares one measured value with the reference and records it"""

    def __init__(self, g, acc, ref):
        self.g, self.acc, self.ref = g, acc, ref
        self.base = {k: g[k] for k in ('kind', 'fam', 'sym', 'dims', 'spec', 'var', 'env')}

    def value(self, method, names, sites, val, extra=None, key=None):
        acc = self.acc
        ref = self.ref.ev(names, sites)
        ntv = abs(ref) > 1e-6 and abs(ref - 1) > 1e-6
        case = dict(self.base, method=method, ops=list(names), sites=[list(s) for s in sites], seed=acc.seed)
        if extra:
            case.update(extra)
        ok = val is not None and np.isfinite(complex(val)) and abs(complex(val) - ref) <= TOL * max(1, abs(ref))
        fermi = sum(1 for n in names if any(self.ref.loc.O[n].n)) >= 2 and self.ref.loc.config.fermionic
        acc.ev(key=('v', repr(case)), nontrivial=ntv, outcome=('v', self.g['env'], method, len(names), fermi, ntv, ok))
        acc.cnt[f"values_{self.g['env']}_{method}"] += 1
        if fermi and ntv:
            acc.cnt['fermionic_nontrivial'] += 1
        if not ok:
            acc.fail(case, f"{self.g['env']}.{method}({', '.join(names)}; sites={[tuple(s) for s in sites]}) = {val} but the dense state gives "
                     f"{ref} [{self.g['fam']} {self.g['sym']} {self.g['dims']} {self.g['spec']} var={self.g['var']}{'' if not extra else ' ' + str(extra)}]", key=key)
        return ok

    def error(self, method, names, sites, st, r, extra=None):
        case = dict(self.base, method=method, ops=list(names), sites=[list(s) for s in sites], seed=self.acc.seed)
        if extra:
            case.update(extra)
        self.acc.ev(key=('v', repr(case)), nontrivial=True, outcome=('v', self.g['env'], method, 'error'))
        self.acc.fail(case, f"{self.g['env']}.{method}({', '.join(names)}; sites={[tuple(s) for s in sites]}) failed: {st}: {r}")


def run_measure(g, acc):
    loc, geo, psi, D = make_state(g, acc.seed)
    ref = Ref(loc, geo, psi, D)
    rec = Rec(g, acc, ref)
    sites = [tuple(s) for s in geo.sites()]
    bonds = [(tuple(b[0]), tuple(b[1])) for b in geo.bonds()]
    O = loc.O
    envk = g['env']
    quick = acc.tier == 'quick'
    part, parts = g.get('part', 0), g.get('parts', 1)
    st, env = TC.call(lambda: build_env(envk, psi, g['dims']))
    if st != 'ok':
        acc.fail(dict(rec.base, method='build'), f"building {envk} failed: {st}: {env}")
        return
    t1 = neutral_tuples(loc, 1)
    t2 = neutral_tuples(loc, 2)
    t3 = neutral_tuples(loc, 3)
    t2s = pick(t2, 4 if quick else 8, acc.seed)
    t3s = pick([t for t in t3 if sum(1 for n in t if any(O[n].n)) >= 2] or t3, 2 if quick else 4, acc.seed)

    if part == 0:
        # ---- 1-site: all sites at once, one site, several sites, dict of operators
        for (name,) in t1:
            st, out = TC.call(lambda: env.measure_1site(O[name]))
            if st != 'ok':
                rec.error('measure_1site', (name,), [sites[0]], st, out)
                continue
            for s in sites:
                rec.value('measure_1site', (name,), [s], out.get(s) if hasattr(out, 'get') else None)
            s = sites[(acc.seed + len(name)) % len(sites)]
            st, val = TC.call(lambda: env.measure_1site(O[name], site=s))
            if st != 'ok':
                rec.error('measure_1site', (name,), [s], st, val, {'form': 'site'})
            else:
                rec.value('measure_1site', (name,), [s], val, {'form': 'site'})
        # ---- nearest neighbours
        for names in t2s:
            if envk == 'bmps':
                st, out = TC.call(lambda: env.measure_nn(O[names[0]], O[names[1]]))
                if st != 'ok':
                    rec.error('measure_nn', names, bonds[0], st, out)
                    continue
                charged = any(O[names[0]].n) and loc.config.fermionic
                for b in bonds:
                    rec.value('measure_nn', names, b, out.get(b), key='bmps:measure_nn:charged-operators' if charged else None)
                continue
            st, out = TC.call(lambda: env.measure_nn(O[names[0]], O[names[1]]))
            if st != 'ok':
                rec.error('measure_nn', names, bonds[0], st, out)
                continue
            for b in bonds:
                rec.value('measure_nn', names, b, out.get(b))
            for b in bonds:
                st, val = TC.call(lambda: env.measure_nn(O[names[0]], O[names[1]], bond=b[::-1]))
                if st != 'ok':
                    rec.error('measure_nn', names, b[::-1], st, val, {'form': 'bond'})
                else:
                    rec.value('measure_nn', names, b[::-1], val, {'form': 'bond'})
    if envk == 'bp':
        return

    # ---- measure_2site
    if part == 0:
        Nx, Ny = g['dims']
        for names in t2s[:2 if quick else 4]:
            for dirn in 'hv':
                for pairs in ('<=', 'corner <=', 'row <', '='):
                    kw = dict(xrange=(0, Nx), yrange=(0, Ny), pairs=pairs, dirn=dirn, opts_svd=dict(SVD_EXACT))
                    st, out = TC.call(lambda: env.measure_2site(O[names[0]], O[names[1]], **kw))
                    if st != 'ok':
                        rec.error('measure_2site', names, [sites[0], sites[0]], st, out, {'dirn': dirn, 'pairs': pairs})
                        continue
                    expect = expected_pairs(sites, pairs, dirn)
                    got = {(tuple(k[0]), tuple(k[1])) for k in out}
                    if got != set(expect):
                        acc.fail(dict(rec.base, method='measure_2site', dirn=dirn, pairs=pairs),
                                 f"measure_2site(pairs={pairs!r}, dirn={dirn!r}) returned pairs {sorted(got)} instead of {sorted(expect)}")
                    for (s0, s1), val in out.items():
                        rec.value('measure_2site', names, [tuple(s0), tuple(s1)], val, {'dirn': dirn, 'pairs': pairs})
        if envk == 'ctm':   # one more expansion must not change anything
            st, r = TC.call(lambda: env.expand_outward_())
            name = t1[-1][0]
            st, out = TC.call(lambda: env.measure_1site(O[name]))
            if st == 'ok':
                for s in sites:
                    rec.value('measure_1site', (name,), [s], out.get(s), {'form': 'after extra expand_outward_'})
            st, env = TC.call(lambda: build_env(envk, psi, g['dims']))

    # ---- n-site methods: all site pairs (with repetition), triples on small lattices
    methods = ['measure_nsite'] + (['measure_2x2', 'measure_line', 'measure_nsite_exact'] if envk == 'ctm' else [])
    if 1 in g['dims']:   # no 2x2 window exists on a one-row / one-column lattice (KeyError from the lattice); strips start at width 2
        methods = [m for m in methods if m not in ('measure_2x2', 'measure_nsite_exact')]
    N = len(sites)
    tuples = [(names, ss) for names in t2s[:2 if quick else 4] for ss in itertools.product(sites, repeat=2)]
    if N <= 4 or not quick:
        tuples += [(names, ss) for names in t3s for ss in itertools.product(sites, repeat=3) if (N <= 4 or len(set(ss)) == 3)]
    tuples = tuples[part::parts]
    for names, ss in tuples:
        for m in methods:
            acc.check_time()
            st, val = TC.call(lambda: getattr(env, m)(*[O[n] for n in names], sites=ss))
            if st == 'yerr':
                acc.cnt[f'rejected_{m}'] += 1
                acc.ev(key=('rej', g['fam'], g['sym'], tuple(g['dims']), m, names, ss), nontrivial=False, outcome=('rej', m))
                continue
            if st != 'ok':
                if m in ('measure_2x2', 'measure_line') and not fits(m, ss):
                    acc.cnt[f'rejected_{m}'] += 1     # outside the method's contract (not a 2x2 window / not a line)
                    continue
                rec.error(m, names, ss, st, val)
                continue
            if envk == 'bmps' and m == 'measure_nsite':
                refv = ref.ev(names, ss)
                if not abs(complex(val) - refv) <= TOL * max(1, abs(refv)):
                    # the method truncates internally with D_total of the stored boundaries; retry its worker without truncation
                    from yastn.tn.fpeps.envs._env_window import _measure_nsite
                    st2, val2 = TC.call(lambda: _measure_nsite(env, *[O[n] for n in names], sites=ss, dirn='lr', opts_svd=dict(SVD_EXACT)))
                    if st2 == 'ok' and abs(complex(val2) - refv) <= TOL * max(1, abs(refv)):
                        acc.cnt['bmps_nsite_internal_truncation_binds'] += 1
                        acc.ev(key=('trunc', repr((g['fam'], g['sym'], g['dims'], names, ss))), nontrivial=False, outcome=('trunc',))
                        continue
            rec.value(m, names, ss, val)
    acc.sample(dict(rec.base, part=part))


def fits(m, ss):
    xs = sorted({s[0] for s in ss})
    ys = sorted({s[1] for s in ss})
    if m == 'measure_line':
        return len(xs) == 1 or len(ys) == 1
    return xs[-1] - xs[0] <= 1 and ys[-1] - ys[0] <= 1


def expected_pairs(sites, pairs, dirn):
    so = (lambda s: s) if dirn == 'h' else (lambda s: s[::-1])
    x0, y0 = min(s[0] for s in sites), min(s[1] for s in sites)
    if 'corner' in pairs:
        allp = [((x0, y0), s1) for s1 in sites]
    elif 'row' in pairs:
        allp = [(s0, s1) for s0 in sites if s0[0] == x0 for s1 in sites]
    else:
        allp = [(s0, s1) for s0 in sites for s1 in sites]
    out = []
    if '<' in pairs:
        out += [(a, b) for a, b in allp if so(a) < so(b)]
    if '=' in pairs:
        out += [(a, b) for a, b in allp if a == b]
    return out


# ---------------------------------------------------------------------------------------------
# NTU metrics

WHICH = ['NN', 'NN+', 'NN++', 'NNN', 'NNN+', 'NNN++']


def qr_pair(psi, s0, s1, dirn):
    if dirn == 'lr':
        Q0, R0 = psi[s0].qr(axes=((0, 1, 2, 4), 3), sQ=-1, Qaxis=3)
        Q1, R1 = psi[s1].qr(axes=((0, 2, 3, 4), 1), sQ=1, Qaxis=1, Raxis=-1)
    else:
        Q0, R0 = psi[s0].qr(axes=((0, 1, 3, 4), 2), sQ=1, Qaxis=2)
        Q1, R1 = psi[s1].qr(axes=((1, 2, 3, 4), 0), sQ=-1, Qaxis=0, Raxis=-1)
    return Q0, R0, Q1, R1


def metric_case(psi, which, bond, dirn):
    """returns (message | None, info)"""
    env = fpeps.EnvNTU(psi, which=which)
    Q0, R0, Q1, R1 = qr_pair(psi, bond[0], bond[1], dirn)
    st, fgf = TC.call(lambda: env.bond_metric(Q0, Q1, bond[0], bond[1], dirn))
    if st != 'ok':
        return f"bond_metric failed: {st}: {fgf}", {}
    g = fgf.g
    if g.ndim != 2:
        return f"bond metric has rank {g.ndim}", {}
    legs = g.get_legs()
    try:
        un = yastn.legs_union(legs[0], legs[1].conj())
    except YastnError as e:
        return f"bond metric legs are not conjugate to each other: {e}", {}
    M = g.to_numpy(legs={0: un, 1: un.conj()})
    nrm = np.linalg.norm(M)
    if not nrm > 0:
        return "bond metric vanishes", {}
    ah = np.linalg.norm(M - M.conj().T) / nrm
    ev = np.linalg.eigvalsh((M + M.conj().T) / 2)
    info = {'antiherm': float(ah), 'min_eig': float(ev.min() / nrm), 'nblocks': len(g.struct.t), 'dim': M.shape[0]}
    if ah > 1e-10:
        return f"bond metric is not Hermitian: |g - g^+|/|g| = {ah:.3e}", info
    if ev.min() < -1e-10 * nrm:
        return f"bond metric has a negative eigenvalue: min eig/|g| = {ev.min() / nrm:.3e}", info
    return None, info


def run_metric(g, acc):
    loc, geo, psi, D = make_state(g, acc.seed)
    bonds = [(tuple(b[0]), tuple(b[1])) for b in geo.bonds()]
    base = {k: g[k] for k in ('kind', 'fam', 'sym', 'dims', 'spec', 'var')}
    for which in WHICH:
        for b in bonds:
            acc.check_time()
            dirn = geo.nn_bond_dirn(*b)
            case = dict(base, which=which, bond=[list(b[0]), list(b[1])], seed=acc.seed)
            m, info = metric_case(psi, which, b, dirn)
            acc.ev(key=('g', repr(case)), nontrivial=info.get('nblocks', 0) > 1 or info.get('dim', 0) > 1, outcome=('g', which, dirn, m is None))
            acc.cnt['metrics'] += 1
            if m:
                acc.fail(case, f"EnvNTU(which={which!r}).bond_metric on bond {b} [{g['fam']} {g['sym']} {g['dims']} {g['spec']} var={g['var']}]: {m}")
    acc.sample(dict(base))


# ---------------------------------------------------------------------------------------------
# evolution step without binding truncation

def evol_gates(loc, geo, tier):
    nn, lc = PG.gate_kinds(loc)
    low = [x for x in nn if x[0] in LOWRANK] or nn[:1]
    out = []
    for b in PG.bonds_both(geo):
        kind, par = low[0]
        out.append({'kind': kind, 'par': par, 'step': PG.jstep(0.2j + 0.1), 'sites': [list(b[0]), list(b[1])]})
    p3 = PG.paths(geo, 3)
    for p in (p3 if tier != 'quick' else p3[::max(1, len(p3) // 4)]):
        ps = [list(s) for s in p]
        out.append({'kind': 'mpo', 'par': {'a': 1.0}, 'step': None, 'sites': ps})
        kind, par = low[-1]
        out.append({'kind': kind, 'par': par, 'step': PG.jstep(0.4j), 'sites': ps})
    return out


def evol_case(g, desc, which, opts, seed):
    loc, geo, psi, D = make_state(g, seed)
    idx = PG.site_index(geo)
    v = D(psi)
    spaces = [loc.space] * len(idx)
    M = PG.dense_gate(loc, desc, spaces, [idx[tuple(s)] for s in desc['sites']])
    ref = M @ v
    env = fpeps.EnvNTU(psi, which=which)
    gate = PG.build_gate(loc, desc)
    st, infos = TC.call(lambda: fpeps.evolution_step_(env, [gate], opts_svd=dict(SVD_EXACT), **opts))
    if st != 'ok':
        return f"evolution_step_ failed: {st}: {infos}", True
    w = D(psi)
    ov = np.vdot(ref, w)
    nr, nw = np.linalg.norm(ref), np.linalg.norm(w)
    if not (nw > 0 and np.isfinite(nw)):
        return f"evolved state has norm {nw}", True
    dist = np.linalg.norm(w * (np.vdot(w, ref) / nw ** 2) - ref) / nr
    ntv = np.linalg.norm(ref - v * (np.vdot(v, ref) / np.vdot(v, v))) / nr > 1e-6
    if not dist <= 1e-7:
        return f"the evolved state is not the dense-evolved ray: distance {dist:.3e}", ntv
    errs = [float(i.truncation_error) for i in infos]
    if not all(e <= 1e-7 for e in errs):
        return f"non-binding truncation reports truncation_error {max(errs):.3e}", ntv
    nb = len(desc['sites']) - 1
    if opts.get('method', 'mpo').lower() != 'nn' and len(infos) != nb:
        return f"{len(infos)} Evolution_out records for a gate over {nb} bonds", ntv
    return None, ntv


def run_evol(g, acc):
    loc = PG.PLocal(g['fam'], g['sym'])
    geo = PG.lattice(g['dims'], 'obc')
    base = {k: g[k] for k in ('kind', 'fam', 'sym', 'dims', 'spec', 'var')}
    quick = acc.tier == 'quick'
    gates = evol_gates(loc, geo, acc.tier)
    optsets = [{}, {'method': 'NN'}, {'initialization': 'SVD'}, {'initialization': 'EAT'}, {'fix_metric': 1}, {'fix_metric': None}]
    k = 0
    for gi, desc in enumerate(gates):
        for wi, which in enumerate(WHICH):
            for oi, opts in enumerate(optsets):
                if quick and (gi + wi + oi + acc.seed) % 6 and not (oi == 0 and wi in (0, 3) and gi % 2 == 0):
                    continue
                if len(desc['sites']) == 2 and opts.get('method') == 'NN':
                    continue
                acc.check_time()
                case = dict(base, gate=desc, which=which, opts=opts, seed=acc.seed)
                m, ntv = evol_case(g, desc, which, opts, acc.seed)
                acc.ev(key=('e', repr(case)), nontrivial=ntv, outcome=('e', which, len(desc['sites']), repr(opts), m is None))
                acc.cnt['evolution_steps'] += 1
                if m:
                    acc.fail(case, f"evolution_step_ with EnvNTU({which!r}), gate {desc['kind']} on {desc['sites']}, {opts} "
                             f"[{g['fam']} {g['sym']} {g['dims']} {g['spec']} var={g['var']}]: {m}")
    acc.sample(dict(base))


# ---------------------------------------------------------------------------------------------

def replay(case):
    k = case['kind']
    seed = case.get('seed', 0)
    if k == 'metric':
        loc, geo, psi, D = make_state(case, seed)
        b = (tuple(case['bond'][0]), tuple(case['bond'][1]))
        m, _ = metric_case(psi, case['which'], b, geo.nn_bond_dirn(*b))
        return [m] if m else []
    if k == 'evol':
        m, _ = evol_case(case, case['gate'], case['which'], case['opts'], seed)
        return [m] if m else []
    if k == 'bptree':
        acc = _Mini()
        acc.seed = seed
        run_bptree({x: case[x] for x in ('fam', 'sym', 'dims', 'spec', 'var', 'tree')} | {'kind': 'bptree'}, acc)
        keys = [x for x in case if x not in ('seed',)]
        return [v['msg'] for v in acc.violations if all(v['case'].get(x) == case.get(x) for x in keys)][:3]
    if k == 'measure':
        acc = _Mini()
        acc.seed = seed
        for part in range(3 if case['env'] == 'ctm' and case['dims'][0] * case['dims'][1] >= 6 else 1):
            run_measure(dict(case, part=part, parts=3 if case['env'] == 'ctm' and case['dims'][0] * case['dims'][1] >= 6 else 1), acc)
        keys = [x for x in case if x not in ('seed',)]
        return [v['msg'] for v in acc.violations if all(v['case'].get(x) == case.get(x) for x in keys)][:3]
    return []


class _Mini:
    def __init__(self):
        self.violations, self.cnt = [], collections.Counter()
        self.evaluations = self.states = self.transitions = 0
        self.tier, self.seed = 'quick', 0

    def ev(self, *a, **k):
        pass

    def fail(self, case, msg, key=None):
        self.violations.append({'case': case, 'msg': msg})

    def sample(self, c):
        pass

    def check_time(self):
        pass


def finalize(summary, tier):
    errs = []
    c = summary['cnt']
    need = {'values_ctm_measure_1site': 300, 'values_ctm_measure_nn': 300, 'values_ctm_measure_2site': 500, 'values_ctm_measure_nsite': 1000,
            'values_ctm_measure_2x2': 300, 'values_ctm_measure_line': 300, 'values_ctm_measure_nsite_exact': 1000,
            'values_bmps_measure_1site': 300, 'values_bmps_measure_nsite': 1000, 'values_bmps_measure_2site': 500,
            'values_bp_measure_1site': 100, 'values_bp_measure_nn': 100, 'metrics': 500, 'evolution_steps': 300, 'fermionic_nontrivial': 1000}
    for k, n in need.items():
        if c.get(k, 0) < n:
            errs.append(f"vacuity: {k} = {c.get(k, 0)} < {n}")
    return errs
