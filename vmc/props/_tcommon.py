"""Shared helpers for the tensor-level checks (C01, C02, C03, C14, C15 ...)."""
import os
import sys
import traceback

import numpy as np
import yastn
from yastn import YastnError

from vmc.models import dense as MD
from vmc.models import groups as G
from vmc.gen import legs as GL
from vmc.gen import configs as GC


def call(f, *a, **k):
    """run a yastn operation: ('ok', value) | ('yerr', msg) | ('exc', msg)"""
    try:
        return 'ok', f(*a, **k)
    except YastnError as e:
        return 'yerr', str(e)
    except MemoryError:
        raise
    except Exception as e:  # any other exception type escaping a public operation
        tb = traceback.format_exc().strip().splitlines()
        where = [l.strip() for l in tb if 'yastn/' in l][-1:] or ['']
        return 'exc', f"{type(e).__name__}: {e} @ {where[0]}"


def legs_dict(cfg, sig, spaces):
    return {i: GL.make_leg(cfg, s, sp) for i, (s, sp) in enumerate(zip(sig, spaces))}


def same(a, b, tol=0.0):
    if a.shape != b.shape:
        return False
    if tol == 0.0:
        return np.array_equal(a, b)
    sc = max(1.0, float(np.max(np.abs(b))) if b.size else 1.0)
    return bool(np.all(np.abs(a - b) <= tol * sc))


def check_result(r, R, spaces, sig, n, tol=0.0, exports=True, what='result'):
    """
    r: yastn tensor; R: expected dense array over `spaces` (native logical legs); sig, n expected.
    Returns None or a message.
    """
    if not isinstance(r, yastn.Tensor):
        return f"{what}: not a Tensor but {type(r).__name__}"
    if r.ndim_n != len(spaces):
        return f"{what}: native rank {r.ndim_n}, expected {len(spaces)}"
    gs = tuple(r.get_signature(native=True))
    if gs != tuple(sig):
        return f"{what}: signature {gs}, expected {tuple(sig)}"
    if tuple(r.n) != tuple(n):
        return f"{what}: total charge {tuple(r.n)}, expected {tuple(n)}"
    try:
        r.is_consistent()
    except (AssertionError, YastnError) as e:
        return f"{what}: is_consistent() fails: {e!r}"
    try:
        D, own = MD.dense(r, spaces, return_own=True)
    except MD.ShadowError as e:
        return f"{what}: legs do not match the documented result legs: {e}"
    if not same(D, R, tol):
        bad = np.argwhere(~np.isclose(D, R, atol=tol, rtol=0))
        i = tuple(bad[0]) if len(bad) else ()
        return (f"{what}: dense values differ from the NumPy reference at {len(bad)} positions, "
                f"first {i}: got {D[i] if len(bad) else '?'} expected {R[i] if len(bad) else '?'}")
    if exports and not r.isdiag:
        try:
            E = r.to_numpy(native=True)
        except Exception as e:
            return f"{what}: to_numpy() raised {type(e).__name__}: {e}"
        Dr = MD.restrict(D, spaces, own)
        if E.shape != Dr.shape or not np.array_equal(E, Dr):
            return f"{what}: to_numpy disagrees with block access (shapes {E.shape} vs {Dr.shape})"
    return None


def flip_space(mods, sp):
    return {G.neg(mods, t): d for t, d in sp.items()}


def flip_axis_dense(mods, A, sp, axis):
    """dense array after negating all charges on `axis` (sectors re-sorted)"""
    offs, _ = MD.offsets(sp)
    newsp = flip_space(mods, sp)
    noffs, _ = MD.offsets(newsp)
    idx = np.zeros(A.shape[axis], dtype=np.int64)
    for t, (lo, hi) in offs.items():
        nlo, nhi = noffs[G.neg(mods, t)]
        idx[nlo:nhi] = np.arange(lo, hi)
    return np.take(A, idx, axis=axis), newsp


def present_mask(b):
    """boolean dense mask of the blocks actually created by the generator"""
    mods = G.moduli(b.x.config.sym)
    m = np.zeros(b.A.shape, dtype=bool)
    if len(b.spaces) == 0:
        m[()] = b.nblocks > 0
        return m
    offs = [MD.offsets(sp) for sp in b.spaces]
    if b.td.get('diag'):
        keys = [(t, t) for t in sorted(b.spaces[0])]
    else:
        keys = MD.allowed_keys(mods, b.spaces, b.s, b.n)
    drop = b.td.get('drop')
    if drop and keys:
        dd = {d % len(keys) for d in drop}
        keys = [k for i, k in enumerate(keys) if i not in dd]
    for key in keys:
        sl = tuple(slice(*offs[i][0][t]) for i, t in enumerate(key))
        if b.td.get('diag'):
            blk = np.eye(b.spaces[0][key[0]], dtype=bool)
            m[sl] = blk
        else:
            m[sl] = True
    return m


class CallTimeout(Exception):
    pass


def call_timed(seconds, f, *a, **k):
    """like call(), with a CPU-time guard (SIGVTALRM): ('timeout', None) if the call does not return within the given CPU seconds"""
    import signal

    def handler(signum, frame):
        if os.environ.get('VERIF_DUMP_TIMEOUT') == '1':
            traceback.print_stack(frame, file=sys.stderr)
        raise CallTimeout()
    # CPU time of this process, not wall-clock time: a loaded machine must not turn a slow call into a 'timeout'
    old = signal.signal(signal.SIGVTALRM, handler)
    signal.setitimer(signal.ITIMER_VIRTUAL, seconds)
    try:
        try:
            return 'ok', f(*a, **k)
        finally:
            signal.setitimer(signal.ITIMER_VIRTUAL, 0)
    except CallTimeout:
        return 'timeout', None
    except YastnError as e:
        return 'yerr', str(e)
    except MemoryError:
        raise
    except Exception as e:
        tb = traceback.format_exc().strip().splitlines()
        where = [l.strip() for l in tb if 'yastn/' in l][-1:] or ['']
        return 'exc', f"{type(e).__name__}: {e} @ {where[0]}"
    finally:
        signal.signal(signal.SIGVTALRM, old)
