"""
C19 - Symmetry rules are abelian groups and legs hold canonical charges.

Exhaustive product enumeration:
  (a) every symmetry class found in yastn.sym: fuse() on all m-tuples (m<=3, thorough 4) of charges from a
      box (canonical and non-canonical representatives) x all signature vectors x new_signature, compared
      with tuple arithmetic (vmc.models.groups); group axioms checked on the implementation directly
      (grouping invariance with intermediate signatures, commutativity, identity, inverse, batch == row-wise,
      add_charges return types).
  (b) Leg constructor over arguments in and just outside the valid domain: accepted iff reference predicate,
      YastnError otherwise, sorted storage, conj involution/dual, hash/equality, leg_product/undo/union.
"""
import itertools

import numpy as np
import yastn
from yastn import YastnError

from vmc.models import groups as G
from vmc.gen import legs as GL
from vmc.gen import configs as GC

PROPERTY_ID = 'C19'
LEVEL = 'exploration'
RULE = ("product enumeration; fuse: one case = (symmetry, m-tuple of charges from the box incl. non-canonical "
        "representatives, signature vector, new_signature); non-trivial = at least one non-zero charge; distinct "
        "by construction (np.unique over rows). Leg: one case = (symmetry, s, t-sequence, D-sequence); "
        "non-trivial = at least one sector given.")
ASSUMPTIONS = ["reference group law = tuple arithmetic with moduli table vmc/models/groups.py (self-checked)",
               "U(1) factors explored in a bounded box only"]
BUDGET = {'quick': 120, 'thorough': 600}


def sym_classes():
    out = []
    for name in dir(yastn.sym):
        o = getattr(yastn.sym, name)
        if isinstance(o, type) and issubclass(o, yastn.sym.sym_abelian) and o is not yastn.sym.sym_abelian:
            out.append(o)
    return sorted(out, key=lambda c: (c.NSYM, c.SYM_ID))


def box(mods, tier, m):
    """value set per factor (includes non-canonical representatives for finite factors)."""
    nsym = len(mods)
    vals = []
    for mod in mods:
        if mod:
            v = list(range(-3, 6)) if nsym == 1 else list(range(-1, mod + 2))
        else:
            B = 3 if tier == 'quick' else 6
            if nsym >= 2:
                B = 2 if tier == 'quick' else 3
            if m >= 3 and nsym >= 2:
                B = min(B, 2)
            if m >= 4:
                B = min(B, 2 if nsym == 1 else 1)
            v = list(range(-B, B + 1))
        vals.append(v)
    return [tuple(t) for t in itertools.product(*vals)]


def groups(tier, seed):
    gs = []
    mmax = 3 if tier == 'quick' else 4
    for c in sym_classes():
        for m in range(1, mmax + 1):
            if c.NSYM == 0 and m > 2:
                continue
            P = 1 if (m < 3 or c.NSYM < 2) else 16
            for part in range(P):
                gs.append({'kind': 'fuse', 'sym': c.SYM_ID, 'm': m, 'level': m, 'part': part, 'parts': P})
        gs.append({'kind': 'axioms', 'sym': c.SYM_ID, 'level': 1})
        gs.append({'kind': 'leg', 'sym': c.SYM_ID, 'level': 1})
        gs.append({'kind': 'legops', 'sym': c.SYM_ID, 'level': 2})
    return gs


def _cls(sid):
    for c in sym_classes():
        if c.SYM_ID == sid:
            return c
    raise KeyError(sid)


def ref_fuse_rows(mods, arr, sig, ns):
    """arr: (k, m, nsym) int array -> (k, nsym) by plain integer arithmetic."""
    k, m, nsym = arr.shape
    out = np.zeros((k, nsym), dtype=np.int64)
    for j in range(m):
        out += sig[j] * arr[:, j, :]
    out *= ns
    for c, mod in enumerate(mods):
        if mod:
            out[:, c] = out[:, c] - mod * np.floor_divide(out[:, c], mod)
    return out


def run_group(g, acc):
    kind = g['kind']
    cls = _cls(g['sym'])
    try:
        mods = G.moduli(g['sym'])
    except KeyError:
        acc.cnt['uncovered_symmetry_without_reference'] += 1
        return
    if kind == 'fuse':
        _run_fuse(g, cls, mods, acc)
    elif kind == 'axioms':
        _run_axioms(g, cls, mods, acc)
    elif kind == 'leg':
        _run_leg(g, cls, mods, acc)
    elif kind == 'legops':
        _run_legops(g, cls, mods, acc)


def _run_fuse(g, cls, mods, acc):
    m, nsym = g['m'], len(mods)
    bx = box(mods, acc.tier, m)
    P, part = g.get('parts', 1), g.get('part', 0)
    allrows = [(a,) + r for i, a in enumerate(bx) if i % P == part for r in itertools.product(bx, repeat=m - 1)]
    if not allrows:      # more shards than elements of the charge box: nothing in this shard
        return
    rows = np.array(allrows, dtype=np.int64).reshape(len(allrows), m, nsym)
    nz = int(np.count_nonzero(np.any(rows.reshape(len(rows), -1) != 0, axis=1))) if nsym else 0
    first = True
    for sig in itertools.product((1, -1), repeat=m):
        for ns in (1, -1):
            got = cls.fuse(rows.copy(), sig, ns)
            got = np.asarray(got)
            exp = ref_fuse_rows(mods, rows, sig, ns)
            acc.evaluations += len(rows)
            if got.shape != exp.shape or not np.array_equal(got, exp):
                if got.shape == exp.shape:
                    bad = np.nonzero(np.any(got != exp, axis=1))[0]
                    i = int(bad[0])
                    case = {'kind': 'fuse', 'sym': g['sym'], 'charges': rows[i].tolist(), 'sig': list(sig), 'ns': ns}
                    acc.fail(case, f"fuse{rows[i].tolist()} sig={sig} new_signature={ns} -> {got[i].tolist()} "
                             f"expected {exp[i].tolist()} ({len(bad)} rows differ)")
                else:
                    case = {'kind': 'fuse', 'sym': g['sym'], 'charges': rows[0].tolist(), 'sig': list(sig), 'ns': ns}
                    acc.fail(case, f"fuse returns shape {got.shape}, expected {exp.shape}")
            for r in np.unique(got.reshape(len(rows), -1), axis=0)[:64].tolist():
                acc.outcomes.add(hash(tuple(r)) & 0xffffffffffff)
            if first:
                acc.sample({'kind': 'fuse', 'sym': g['sym'], 'charges': rows[len(rows) // 2].tolist(),
                            'sig': list(sig), 'ns': ns, 'result': np.asarray(got)[len(rows) // 2].tolist()})
                first = False
    acc.cnt['distinct_by_construction'] += nz * (2 ** m) * 2
    acc.cnt['fuse_rows'] += len(rows)


def _compositions(m):
    """all ways to cut range(m) into consecutive groups"""
    for cuts in itertools.product((0, 1), repeat=m - 1):
        parts, cur = [], [0]
        for i, c in enumerate(cuts, start=1):
            if c:
                parts.append(cur)
                cur = [i]
            else:
                cur.append(i)
        parts.append(cur)
        yield parts


def _run_axioms(g, cls, mods, acc):
    nsym = len(mods)
    sid = g['sym']
    cvals = [range(mod) if mod else range(-2, 3) for mod in mods]
    cbox = [tuple(t) for t in itertools.product(*cvals)]  # canonical charges
    z = cls.zero()
    if tuple(z) != G.zero(mods):
        acc.fail({'kind': 'zero', 'sym': sid}, f"zero() = {z}")

    def F(ch, sig, ns):
        a = np.array(ch, dtype=np.int64).reshape(1, len(ch), nsym)
        return tuple(np.asarray(cls.fuse(a, tuple(sig), ns)).reshape(nsym).tolist())

    # add_charges types / defaults
    r = cls.add_charges()
    acc.ev(('add0', sid), False)
    if r != G.zero(mods):
        acc.fail({'kind': 'add_charges', 'sym': sid, 'charges': [], 'sig': None, 'ns': 1}, f"add_charges() = {r}")
    mmax = 3
    for m in range(1, mmax + 1):
        tuples = list(itertools.product(cbox, repeat=m))
        if len(tuples) > 4000:
            sbox = cbox[::max(1, len(cbox) // 12)] if m == 3 else cbox
            tuples = list(itertools.product(sbox, repeat=m))
        for ch in tuples:
            if acc.out_of_time():
                return
            for sig in itertools.product((1, -1), repeat=m):
                for ns in (1, -1):
                    key = ('ax', sid, ch, sig, ns)
                    full = F(ch, sig, ns)
                    ref = G.add(mods, ch, sig, ns)
                    acc.ev(key, any(any(t) for t in ch), full)
                    case = {'kind': 'axiom', 'sym': sid, 'charges': [list(t) for t in ch], 'sig': list(sig), 'ns': ns}
                    if full != ref:
                        acc.fail(case, f"fuse {ch} {sig} {ns} = {full}, reference {ref}")
                        continue
                    if not G.is_canon(mods, full):
                        acc.fail(case, f"result {full} outside canonical range")
                    # add_charges agrees and returns python ints
                    r = cls.add_charges(*ch, signatures=sig, new_signature=ns)
                    if r != full or not isinstance(r, tuple) or not all(type(x) is int for x in r):
                        acc.fail(case, f"add_charges -> {r!r} ({[type(x).__name__ for x in r]}), fuse -> {full}")
                    if all(s == 1 for s in sig) and ns == 1:
                        r2 = cls.add_charges(*ch)
                        if r2 != full:
                            acc.fail(case, f"add_charges default signatures -> {r2}, expected {full}")
                    # grouping invariance (as fusion does): every composition, every intermediate signature
                    if m >= 2:
                        for parts in _compositions(m):
                            if len(parts) == 1 or len(parts) == m:
                                if len(parts) == 1:
                                    continue
                            for gs in itertools.product((1, -1), repeat=len(parts)):
                                inter = [F([ch[i] for i in p], [sig[i] for i in p], s_) for p, s_ in zip(parts, gs)]
                                got = F(inter, gs, ns)
                                acc.evaluations += 1
                                if got != full:
                                    acc.fail(dict(case, parts=parts, gs=list(gs)),
                                             f"grouping {parts} with intermediate signatures {gs}: {got} != {full}")
                        # commutativity
                        for perm in itertools.permutations(range(m)):
                            got = F([ch[i] for i in perm], [sig[i] for i in perm], ns)
                            acc.evaluations += 1
                            if got != full:
                                acc.fail(dict(case, perm=list(perm)), f"permutation {perm}: {got} != {full}")
                    # identity and inverse
                    got = F(list(ch) + [z], list(sig) + [1], ns)
                    got2 = F(list(ch) + [z], list(sig) + [-1], ns)
                    if got != full or got2 != full:
                        acc.fail(case, f"adding zero charge changes result: {got},{got2} != {full}")
                    if m == 1:
                        inv = F(ch, sig, -ns)
                        tot = F([full, inv], (1, 1), 1)
                        tot2 = F([ch[0], ch[0]], (1, -1), ns)
                        if tot != G.zero(mods) or tot2 != G.zero(mods):
                            acc.fail(case, f"flipped signature is not the inverse: {full} + {inv} = {tot}; t-t={tot2}")
        # batch == row-wise for this m
        sub = tuples[:200]
        arr = np.array(sub, dtype=np.int64).reshape(len(sub), m, nsym)
        for sig in itertools.product((1, -1), repeat=m):
            b = np.asarray(cls.fuse(arr.copy(), sig, 1)).reshape(len(sub), nsym).tolist()
            rw = [list(F(ch, sig, 1)) for ch in sub]
            acc.evaluations += len(sub)
            if b != rw:
                i = [x != y for x, y in zip(b, rw)].index(True)
                acc.fail({'kind': 'batch', 'sym': sid, 'charges': [list(t) for t in sub[i]], 'sig': list(sig), 'ns': 1,
                          'batch': [[list(t) for t in c] for c in sub]},
                         f"batched fuse row {i} = {b[i]} but row-wise = {rw[i]}")
    acc.sample({'kind': 'axiom', 'sym': sid, 'charges': [list(cbox[-1])], 'sig': [1], 'ns': -1})


# ----- Leg ------------------------------------------------------------------------------------------

S_VALUES = [1, -1, 0, 2, 1.0, True, '1', -1.0, None]
D_VALUES = [1, 2, 0, -1, 1.5, 2.0]


def leg_reference(mods, s, t, D):
    """returns None if the constructor must reject, else (s, sorted t, D)."""
    nsym = len(mods)
    if isinstance(s, str) or s is None or not (s == 1 or s == -1):
        return None
    flat_t = list(_flat(t))
    flat_D = list(_flat(D))
    if not all(int(x) == x and x > 0 for x in flat_D):
        return None
    if not all(int(x) == x for x in flat_t):
        return None
    lD = len(flat_D)
    if lD * nsym != len(flat_t) or (nsym == 0 and lD > 1):
        return None
    ts = [tuple(int(x) for x in flat_t[i * nsym:(i + 1) * nsym]) for i in range(lD)]
    if any(not G.is_canon(mods, x) for x in ts):
        return None
    if len(set(ts)) != len(ts):
        return None
    pairs = sorted(zip(ts, [int(x) for x in flat_D]))
    return int(s), tuple(p[0] for p in pairs), tuple(p[1] for p in pairs)


def _flat(x):
    for i in x:
        if isinstance(i, (tuple, list)):
            yield from _flat(i)
        else:
            yield i


def leg_cases(mods, tier):
    nsym = len(mods)
    vals = []
    for mod in mods:
        vals.append([0, 1, mod, -1] if mod else [0, 1, -2])
    cb = [tuple(t) for t in itertools.product(*vals)] if nsym else [()]
    if nsym >= 2:
        cb = cb[:6] if tier == 'quick' else cb[:10]
    # t sequences: length 0..3, nested and flat forms, one float-valued form
    tseqs = []
    for L in range(0, 4):
        if nsym == 0 and L > 0:
            break
        for ts in itertools.product(cb, repeat=L):
            tseqs.append(('nested', [list(x) for x in ts]))
            if L and L <= 2:
                tseqs.append(('flat', [y for x in ts for y in x]))
    if nsym == 1:
        tseqs.append(('float', [0.0, 1.0]))
        tseqs.append(('float', [0.5]))
        tseqs.append(('int-flat-extra', [0, 1, 1]))
    if nsym == 2:
        tseqs.append(('wrong-arity', [[0], [1]]))
        tseqs.append(('wrong-arity', [0, 1, 1]))
    if nsym == 0:
        tseqs.append(('stray-charge', [0]))
    Dseqs = []
    for L in range(0, 4):
        dv = D_VALUES if L <= 2 else [1, 2, 0]
        for ds in itertools.product(dv, repeat=L):
            Dseqs.append(list(ds))
    for form, t in tseqs:
        nt = len(t) if form == 'nested' else None
        for D in Dseqs:
            # keep near the diagonal len(D) ~ number of charges, all length mismatches by one included
            nch = nt if nt is not None else (len(t) // nsym if nsym else 0)
            if abs(len(D) - nch) > 1:
                continue
            yield form, t, D


def _run_leg(g, cls, mods, acc):
    sid = g['sym']
    cfgs = [cls]
    try:
        cfgs.append(yastn.make_config(sym=cls))
    except Exception:
        pass
    ncase = 0
    for form, t, D in leg_cases(mods, acc.tier):
        if acc.out_of_time():
            return
        for s in (S_VALUES if len(D) <= 2 and form == 'nested' else [1, -1]):
            for ic, symarg in enumerate(cfgs if len(D) <= 1 else cfgs[:1]):
                case = {'kind': 'leg', 'sym': sid, 's': s, 't': t, 'D': D, 'as_config': ic}
                msg = check_leg(cls, mods, symarg, s, t, D)
                ref = leg_reference(mods, s, t, D)
                acc.ev(('leg', sid, repr(s), form, repr(t), repr(D), ic), len(D) > 0 or len(t) > 0,
                       ('acc' if ref else 'rej', ref))
                ncase += 1
                if ref:
                    acc.cnt['leg_accepted'] += 1
                else:
                    acc.cnt['leg_rejected'] += 1
                if msg:
                    acc.fail(case, msg)
                elif ncase % 997 == 0:
                    acc.sample(case)


def check_leg(cls, mods, symarg, s, t, D):
    ref = leg_reference(mods, s, t, D)
    try:
        leg = yastn.Leg(symarg, s=s, t=t, D=D)
    except YastnError:
        if ref is not None:
            return f"Leg(s={s!r}, t={t}, D={D}) rejected but arguments are valid (expected {ref})"
        return None
    except Exception as e:
        return f"Leg(s={s!r}, t={t}, D={D}) raised {type(e).__name__}: {e} (only YastnError is allowed)"
    if ref is None:
        return f"Leg(s={s!r}, t={t}, D={D}) accepted -> {leg}, but arguments are outside the valid domain"
    rs, rt, rD = ref
    if leg.s != rs or type(leg.s) is not int:
        return f"stored signature {leg.s!r} ({type(leg.s).__name__}), expected {rs}"
    if tuple(leg.t) != rt or tuple(leg.D) != rD:
        return f"stored (t, D) = ({leg.t}, {leg.D}); expected sorted ({rt}, {rD})"
    if not all(type(x) is int for tt in leg.t for x in tt) or not all(type(x) is int for x in leg.D):
        return f"stored charges/dimensions are not python ints: {leg.t!r} {leg.D!r}"
    if list(leg.t) != sorted(leg.t):
        return f"charges not sorted: {leg.t}"
    if leg.tD != dict(zip(rt, rD)):
        return f"tD = {leg.tD}"
    for tt, dd in zip(rt, rD):
        if leg[tt] != dd:
            return f"leg[{tt}] = {leg[tt]} expected {dd}"
    if leg.sym is not cls:
        return f"leg.sym = {leg.sym!r}"
    c = leg.conj()
    if c.s != -rs or tuple(c.t) != rt or tuple(c.D) != rD:
        return f"conj() -> {c}"
    cc = c.conj()
    if cc != leg or hash(cc) != hash(leg):
        return f"conj().conj() = {cc} != {leg}"
    if not leg.are_consistent(c) or not c.are_consistent(leg) or (rt and leg.are_consistent(leg)):
        return f"conj() is not the dual space under are_consistent"
    # equality / hashing independent of the order in which sectors were given
    if len(rt) >= 2:
        l2 = yastn.Leg(cls, s=rs, t=list(reversed(rt)), D=list(reversed(rD)))
        if l2 != leg or hash(l2) != hash(leg):
            return f"Leg built from reversed sector order differs: {l2} vs {leg}"
    if leg.drop_history() != leg:
        return "drop_history changes an elementary leg"
    if leg.is_fused():
        return "elementary leg reports is_fused"
    return None


def _run_legops(g, cls, mods, acc):
    sid = g['sym']
    if sid not in GL.MENU:
        acc.cnt['uncovered_symmetry_without_menu'] += 1
        return
    menu = GL.menu(sid)
    nsym = len(mods)
    for k in (2, 3):
        for combo in itertools.product(range(len(menu)), repeat=k):
            if k == 3 and acc.tier == 'quick' and max(combo) > 2:
                continue
            for sig in itertools.product((1, -1), repeat=k):
                if acc.out_of_time():
                    return
                case = {'kind': 'legprod', 'sym': sid, 'menu': list(combo), 'sig': list(sig)}
                msg = check_legprod(cls, mods, sid, combo, sig)
                acc.ev(('legprod', sid, combo, sig), True, msg is None)
                if msg:
                    acc.fail(case, msg)
    for combo in itertools.product(range(len(menu)), repeat=2):
        for s in (1, -1):
            case = {'kind': 'legunion', 'sym': sid, 'menu': list(combo), 's': s}
            msg = check_legunion(cls, mods, sid, combo, s)
            acc.ev(('legunion', sid, combo, s), True, msg is None)
            if msg:
                acc.fail(case, msg)
    acc.sample({'kind': 'legprod', 'sym': sid, 'menu': [0, 1], 'sig': [1, -1]})


def check_legprod(cls, mods, sid, combo, sig):
    menu = GL.menu(sid)
    legs = [GL.make_leg(_Cfg(cls), s, menu[i]) for i, s in zip(combo, sig)]
    try:
        p = yastn.leg_product(*legs)
    except Exception as e:
        return f"leg_product raised {type(e).__name__}: {e}"
    exp = {}
    for ts in itertools.product(*[list(zip(l.t, l.D)) for l in legs]):
        t = G.add(mods, [x[0] for x in ts], sig, sig[0])
        d = 1
        for x in ts:
            d *= x[1]
        exp[t] = exp.get(t, 0) + d
    if p.s != sig[0] or p.tD != dict(sorted(exp.items())) or list(p.t) != sorted(p.t):
        return f"leg_product sectors {p.tD} (s={p.s}); reference {dict(sorted(exp.items()))} (s={sig[0]})"
    back = yastn.undo_leg_product(p)
    if tuple(back) != tuple(legs):
        return f"undo_leg_product(leg_product(ls)) = {back} != {legs}"
    if not p.is_fused():
        return "product leg does not report is_fused"
    pc = p.conj()
    if pc.conj() != p or not p.are_consistent(pc):
        return "conj of a product leg is not an involution / dual"
    if tuple(yastn.undo_leg_product(pc)) != tuple(l.conj() for l in legs):
        return "undo_leg_product(conj(product)) != conj of factors"
    return None


class _Cfg:
    """minimal stand-in so that Leg(config, ...) path is exercised with a non-class object"""
    def __init__(self, cls):
        self.sym = cls


def check_legunion(cls, mods, sid, combo, s):
    menu = GL.menu(sid)
    a, b = (GL.make_leg(cls, s, menu[i]) for i in combo)
    ta, tb = menu[combo[0]], menu[combo[1]]
    consistent = all(ta[k] == tb[k] for k in ta.keys() & tb.keys())
    try:
        u = yastn.legs_union(a, b)
    except YastnError:
        return None if not consistent else f"legs_union rejected consistent legs {ta} {tb}"
    except Exception as e:
        return f"legs_union raised {type(e).__name__}: {e}"
    if not consistent:
        return f"legs_union accepted legs with conflicting dimensions {ta} {tb} -> {u}"
    exp = dict(sorted({**ta, **tb}.items()))
    if u.tD != exp or u.s != s:
        return f"legs_union = {u.tD}, expected {exp}"
    try:
        yastn.legs_union(a, b.conj())
        return "legs_union accepted legs of opposite signature"
    except YastnError:
        pass
    return None


# ----- replay ---------------------------------------------------------------------------------------

def replay(case):
    cls = _cls(case['sym'])
    mods = G.moduli(case['sym'])
    nsym = len(mods)
    k = case['kind']
    if k in ('fuse', 'axiom', 'batch', 'add_charges'):
        ch = np.array(case['charges'], dtype=np.int64).reshape(1, -1, nsym)
        if ch.shape[1] == 0:
            r = cls.add_charges()
            return [] if r == G.zero(mods) else [f"add_charges() = {r}"]
        got = np.asarray(cls.fuse(ch.copy(), tuple(case['sig']), case['ns'])).reshape(-1).tolist()
        exp = ref_fuse_rows(mods, ch, case['sig'], case['ns']).reshape(-1).tolist()
        msgs = []
        if got != exp:
            msgs.append(f"fuse({case['charges']}, {case['sig']}, {case['ns']}) = {got}, expected {exp}")
        # the richer axioms are re-checked by re-running the one-case group logic
        if k in ('axiom', 'batch'):
            acc = _MiniAcc()
            _run_axioms({'sym': case['sym']}, cls, mods, acc)
            msgs.extend(v['msg'] for v in acc.violations)
        return msgs
    if k == 'zero':
        return [] if tuple(cls.zero()) == G.zero(mods) else [f"zero() = {cls.zero()}"]
    if k == 'leg':
        symarg = cls if not case.get('as_config') else yastn.make_config(sym=cls)
        m = check_leg(cls, mods, symarg, case['s'], case['t'], case['D'])
        return [m] if m else []
    if k == 'legprod':
        m = check_legprod(cls, mods, case['sym'], case['menu'], case['sig'])
        return [m] if m else []
    if k == 'legunion':
        m = check_legunion(cls, mods, case['sym'], case['menu'], case['s'])
        return [m] if m else []
    return [f"unknown case kind {k}"]


class _MiniAcc:
    def __init__(self):
        import collections
        self.violations, self.cnt, self.evaluations = [], collections.Counter(), 0
        self.tier = 'quick'
        self.outcomes = set()

    def ev(self, *a, **k):
        pass

    def fail(self, case, msg, key=None):
        self.violations.append({'case': case, 'msg': msg})

    def sample(self, c):
        pass

    def out_of_time(self):
        return False


def finalize(summary, tier):
    errs = []
    if not G.self_check():
        errs.append('reference group model failed its self-check')
    c = summary['cnt']
    if c.get('leg_accepted', 0) < 100 or c.get('leg_rejected', 0) < 100:
        errs.append(f"vacuous Leg exploration: accepted={c.get('leg_accepted')} rejected={c.get('leg_rejected')}")
    if summary['outcomes'] < 20:
        errs.append(f"only {summary['outcomes']} distinct outcomes")
    return errs


def coverage_extra(summary, tier):
    c = summary['cnt']
    return {'distinct_nontrivial': int(summary['distinct_nontrivial'] + c.get('distinct_by_construction', 0)),
            'symmetry_classes': [k.SYM_ID for k in sym_classes()]}
