"""
C01, fused-context section: operations addressed by LOGICAL axes on tensors some of whose other legs are meta- or
hard-fused (and possibly lazily transposed) must act exactly as the same operation on the plain (unfused) tensor
with the axes mapped to native legs.  Differential oracle: op(fuse(x)) fully unfused == op'(x); the plain side is
the one validated against NumPy by the other sections of C01.
"""
import itertools

import numpy as np
import yastn

from vmc.gen import legs as GL, tensors as GT
from vmc.models import dense as MD, groups as G
from . import _tcommon as TC
from .c03 import fully_unfuse, flat, apply_axes, tup

LAYOUTS = [
    [[0, 1], 2, 3, 4],
    [0, [1, 2], 3, 4],
    [0, 1, 2, [3, 4]],
    [[1, 0], 2, 3, 4],
    [2, [4, 0], 3, 1],
    [[0, 1], 2, [4, 3]],
    [3, [0, 1, 4], 2],
]


def groups(base, tier):
    if base['dtype'] != 'float64':
        return []
    return [dict(base, sec='f_ctx', layout=i, level=1) for i in range(len(LAYOUTS))]


def ops_for(nlog, fusedpos, tier):
    """(opname, args) on a tensor with nlog logical legs, fusedpos = logical positions that are fused"""
    out = []
    unf = [k for k in range(nlog) if k not in fusedpos]
    for k in unf:
        out.append(('apply_mask', k))
        out.append(('broadcast', k))
        out.append(('flip_charges', k))
        out.append(('dot', k))
    out.append(('apply_mask', -1) if (nlog - 1) in unf else ('noop', 0))
    for k in range(nlog):
        out.append(('switch_signature', k))
    for i in unf:
        for j in unf:
            if i != j:
                out.append(('trace', [i, j]))
    for p in [list(range(nlog))[::-1], list(range(1, nlog)) + [0]]:
        out.append(('transpose', p))
    for i in range(nlog):
        out.append(('moveaxis', [i, (i + 1) % nlog]))
    for k in list(range(nlog + 1)) + [-1]:
        out.append(('add_leg', k))
    out.append(('add_remove', 1))
    out.append(('swap_gate', [0, nlog - 1]))
    out.append(('conj', None))
    out.append(('to_numpy_legs', unf[0] if unf else None))
    return [o for o in out if o[0] != 'noop']


def run_group(g, cfg, acc):
    sym = g['sym']
    ms = GL.msize(sym, 2)
    nch = min(2, len(GL.CHARGES[sym]))
    layout = LAYOUTS[g['layout']]
    for n in range(nch):
        for mode in ('meta', 'hard'):
            for lazy in (False, True):
                for drop in (None, [0]):
                    td = {'s': [1, -1, 1, -1, 1], 'm': [0, ms - 1, 0, 0, ms - 1], 'n': n, 'drop': drop, 'var': ['fresh'], 'id': 'x'}
                    state = apply_axes(list(range(5)), layout)
                    nlog = len(layout)
                    fusedpos = [i for i, gq in enumerate(layout) if not isinstance(gq, int)]
                    if lazy:
                        fusedpos = [nlog - 1 - i for i in fusedpos]
                    for op, args in ops_for(nlog, fusedpos, acc.tier):
                        acc.check_time()
                        case = {'sec': 'f_ctx', 'sym': sym, 'dtype': g['dtype'], 'td': td, 'layout': g['layout'], 'mode': mode,
                                'lazy': lazy, 'op': op, 'args': args}
                        st, msg = run_case(case, cfg, acc.seed)
                        acc.ev(repr(sorted(case.items())), st == 'ok', (op, mode, st))
                        acc.cnt['fusedctx_' + st] += 1
                        if st == 'viol':
                            acc.fail(case, msg)
                        elif acc.evaluations % 499 == 0:
                            acc.sample(case)


def replay(case, cfg):
    st, msg = run_case(case, cfg, case.get('seed', 0))
    return [msg] if st == 'viol' else []


def run_case(case, cfg, seed):
    sym = case['sym']
    b = GT.build(cfg, sym, case['td'], seed)
    layout = LAYOUTS[case['layout']]
    state = apply_axes(list(range(5)), layout)
    fx = b.x.fuse_legs(axes=tup(layout), mode=case['mode'])
    xt = b.x.transpose(tuple(flat(state)))            # plain tensor with native legs in fused order
    groups_ = [flat(s_) for s_ in state]
    if case['lazy']:
        fx = fx.transpose(tuple(range(fx.ndim))[::-1])
        groups_ = groups_[::-1]
        xt = b.x.transpose(tuple(a for gq in groups_ for a in gq))
    # native positions (in xt) of each logical leg
    nat, c = [], 0
    for gq in groups_:
        nat.append(list(range(c, c + len(gq))))
        c += len(gq)
    op, args = case['op'], case['args']
    try:
        res = _apply_both(op, args, fx, xt, nat, b, cfg, sym, seed)
    except MD.ShadowError as e:
        return 'viol', f"{op}{args} in fused context: {e}"
    return res


def _cmp(rf, rp, what):
    """rf: result from the fused tensor; rp: result from the plain tensor. compare after full unfusing."""
    u = fully_unfuse(rf)
    if u.ndim_n != rp.ndim_n:
        return 'viol', f"{what}: native rank {u.ndim_n} vs {rp.ndim_n} for the plain tensor"
    lu, lp = u.get_legs(native=True), rp.get_legs(native=True)
    if tuple(l.s for l in lu) != tuple(l.s for l in lp):
        return 'viol', f"{what}: signature {[l.s for l in lu]} vs {[l.s for l in lp]} on the plain tensor"
    if tuple(u.n) != tuple(rp.n):
        return 'viol', f"{what}: charge {u.n} vs {rp.n}"
    # (a hard-unfused leg remembers sectors of the original space that hold no block: compare over the union)
    try:
        sp = [MD.union(dict(zip(a.t, a.D)), dict(zip(b_.t, b_.D))) for a, b_ in zip(lu, lp)]
    except MD.ShadowError as e:
        return 'viol', f"{what}: legs of the fused and plain results are inconsistent: {e}"
    if not np.array_equal(MD.dense(u, sp), MD.dense(rp, sp)):
        return 'viol', f"{what}: values on the fused tensor differ from the same operation on the plain tensor"
    return 'ok', None


def _both(f_fused, f_plain, what):
    s1, r1 = TC.call(f_fused)
    s2, r2 = TC.call(f_plain)
    if s2 == 'yerr' and s1 == 'yerr':
        return 'rejected', None
    if s2 != 'ok':
        return 'rejected', None        # the plain operation is itself not defined here
    if s1 != 'ok':
        return 'viol', f"{what}: plain tensor accepted but fused tensor gave {s1}: {r1}"
    return _cmp(r1, r2, what)


def _apply_both(op, args, fx, xt, nat, b, cfg, sym, seed):
    what = f"{op}({args}) with layout/mode/lazy"
    nlog = fx.ndim
    if op in ('apply_mask', 'broadcast'):
        k = args % nlog
        nk = nat[k][0]
        leg = xt.get_legs(nk)
        msp = dict(zip(leg.t, leg.D))
        spj = MD_space_json(msp)
        td = {'s': [1, -1], 'm': [spj, spj], 'n': 0, 'drop': None, 'diag': True,
              'var': ['fresh'], 'id': 'mask'}
        d = GT.build(cfg, sym, td, seed).x
        if op == 'apply_mask':
            return _both(lambda: d.apply_mask(fx, axes=args), lambda: d.apply_mask(xt, axes=nk), what)
        return _both(lambda: d.broadcast(fx, axes=args), lambda: d.broadcast(xt, axes=nk), what)
    if op == 'flip_charges':
        return _both(lambda: fx.flip_charges(axes=args), lambda: xt.flip_charges(axes=nat[args][0]), what)
    if op == 'switch_signature':
        if type(fx.get_legs(args)).__name__ == 'LegMeta':     # documented for hard-fused legs only
            st, r = TC.call(lambda: fx.switch_signature(axes=[args]))
            if st == 'yerr':
                return 'rejected', None
        return _both(lambda: fx.switch_signature(axes=[args]), lambda: xt.switch_signature(axes=list(nat[args])), what)
    if op == 'dot':
        nk = nat[args][0]
        leg = xt.get_legs(nk)
        p = yastn.ones(config=cfg, legs=[leg.conj(), GL.make_leg(cfg, 1, GL.MENU[sym][0])])
        return _both(lambda: yastn.tensordot(fx, p, axes=(args, 0)), lambda: yastn.tensordot(xt, p, axes=(nk, 0)), what)
    if op == 'trace':
        i, j = args
        return _both(lambda: fx.trace(axes=(i, j)), lambda: xt.trace(axes=(nat[i][0], nat[j][0])), what)
    if op == 'transpose':
        pn = [a for k in args for a in nat[k]]
        return _both(lambda: fx.transpose(tuple(args)), lambda: xt.transpose(tuple(pn)), what)
    if op == 'moveaxis':
        src, dst = args
        order = list(range(nlog))
        order.insert(dst, order.pop(src))
        pn = [a for k in order for a in nat[k]]
        return _both(lambda: fx.moveaxis(src, dst), lambda: xt.transpose(tuple(pn)), what)
    if op == 'add_leg':
        pos = args % (nlog + 1)
        npos = nat[pos][0] if pos < nlog else xt.ndim
        return _both(lambda: fx.add_leg(axis=args, s=1), lambda: xt.add_leg(axis=npos, s=1), what)
    if op == 'add_remove':
        pos = 1
        return _both(lambda: fx.add_leg(axis=pos, s=-1).remove_leg(axis=pos), lambda: xt, what)
    if op == 'swap_gate':
        i, j = args
        return _both(lambda: fx.swap_gate(axes=(i, j)), lambda: xt.swap_gate(axes=(tuple(nat[i]), tuple(nat[j]))), what)
    if op == 'conj':
        return _both(lambda: fx.conj(), lambda: xt.conj(), what)
    if op == 'to_numpy_legs':
        if args is None:
            return 'rejected', None
        k = args
        leg = fx.get_legs(k)
        full = GL.make_leg(cfg, leg.s, b.spaces[[a for gq in [nat[k]] for a in gq][0]] if False else dict(zip(leg.t, leg.D)))
        s1, a1 = TC.call(lambda: fx.to_numpy(legs={k: full}))
        s2, a2 = TC.call(lambda: fx.to_numpy())
        if s1 != 'ok' or s2 != 'ok':
            return 'viol', f"to_numpy(legs=...) on a tensor with fused legs: {s1} {a1 if s1 != 'ok' else ''} / {s2}"
        return ('ok', None) if np.array_equal(a1, a2) else ('viol', "to_numpy(legs={k: own leg}) differs from to_numpy()")
    raise KeyError(op)


def MD_space_json(sp):
    return [[list(t), d] for t, d in sorted(sp.items())]
