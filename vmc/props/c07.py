"""
C07 - MPO construction and measurements realise Jordan-Wigner operators.
(a) generate_mpo: every Hterm (operator tuples of length 1..3 from each predefined family/symmetry x EVERY position
    tuple incl. repetitions and arbitrary order x amplitudes), sums of terms, every f_map permutation, input forms.
(b) Generator (LaTeX-like): expression trees printed to strings and independently evaluated to dense matrices.
(c) measure_1site / measure_2site (every pair i<j, i=j, i>j, every bonds form) / measure_nsite (all site tuples with
    repetitions) / rdm (operational) / sample (every outcome sequence forced through a scripted cut) vs dense JW.
(d) on-site algebra of the predefined operator classes.
"""
import collections
import itertools

import numpy as np
import yastn
import yastn.tn.mps as mps

from vmc.gen import mpsgen as MG
from vmc.models import jw as JW
from . import _tcommon as TC

PROPERTY_ID = 'C07'
LEVEL = 'exploration'
RULE = ("product enumeration: (family, symmetry, N, operator tuple, position tuple, amplitude / f_map / input form) for MPO "
        "construction; (state charges, operator tuple, site tuple / bonds form) for measurements; forced outcome sequences for "
        "sampling; non-trivial = at least two charged (fermionic) operators involved or N>=3; distinct by case hash")
ASSUMPTIONS = ["JW reference (models/jw.py, self-checked CAR): site 0 first in fermionic order, last listed operator acts first",
               "tolerance 1e-10"]
BUDGET = {'quick': 170, 'thorough': 1200}
TOL = 1e-10
FAM_SYMS = [('spinless', 'Z2'), ('spinless', 'U1'), ('spinful', 'Z2'), ('spinful', 'U1'), ('spinful', 'U1xU1'), ('spinful', 'U1xU1xZ2'),
            ('tJ', 'U1xU1xZ2'), ('tJ', 'U1'), ('spin12', 'dense'), ('spin12', 'Z2'), ('spin12', 'U1'), ('spin1', 'Z3'), ('spin1', 'U1')]


def groups(tier, seed):
    gs = []
    for fam, sym in FAM_SYMS:
        for N in ((2, 3, 4) if tier == 'quick' else (2, 3, 4, 5)):
            big = fam in ('spinful', 'tJ')
            if big and N > 3:
                continue
            if fam == 'spin1' and N > (3 if tier == 'quick' else 4):
                continue
            gs.append({'kind': 'mpo', 'fam': fam, 'sym': sym, 'N': N, 'level': 1 if N <= 2 else 2})
        for N in ((3, 4, 5) if fam in ('spinless', 'spin12') else (2, 3)):
            gs.append({'kind': 'measure', 'fam': fam, 'sym': sym, 'N': N, 'level': 1})
        gs.append({'kind': 'onsite', 'fam': fam, 'sym': sym, 'level': 1})
    for fam, sym in (('spinless', 'U1'), ('spinless', 'Z2'), ('spin12', 'dense'), ('spin12', 'Z2'), ('spinful', 'U1xU1')):
        gs.append({'kind': 'fmap', 'fam': fam, 'sym': sym, 'level': 1})
        gs.append({'kind': 'sample', 'fam': fam, 'sym': sym, 'level': 1})
    for sym in ('Z2', 'U1'):
        gs.append({'kind': 'generator', 'fam': 'spinless', 'sym': sym, 'level': 1})
    gs.append({'kind': 'generator', 'fam': 'spin12', 'sym': 'dense', 'level': 1})
    return gs


def run_group(g, acc):
    loc = MG.Local(g['fam'], g['sym'])
    {'mpo': run_mpo, 'measure': run_measure, 'onsite': run_onsite, 'fmap': run_fmap, 'sample': run_sample,
     'generator': run_generator}[g['kind']](g, loc, acc)


def ref_product(loc, names, pos, N, order=None):
    spaces = [loc.space] * N
    return JW.product([(loc.O[n], p) for n, p in zip(names, pos)], spaces, loc.config, order)


def op_names(loc, k, tier):
    names = [n for n in loc.O if n != 'I']
    if len(names) > 4 and k >= 2:
        keep = [n for n in names if n.startswith('c')] + [n for n in names if not n.startswith('c')][:1]
        names = keep if k == 2 else keep[:4]
    if loc.fam == 'spin12' and k >= 3:
        names = names[:3]
    return names


def _rec(acc, case, msg, nontriv, tag):
    acc.ev(repr(case), nontriv and msg is None, (tag, msg is None))
    acc.cnt[tag + ('_ok' if msg is None else '_viol')] += 1
    if msg:
        acc.fail(case, msg)
    elif acc.evaluations % 1009 == 0:
        acc.sample(case)


# ---------------------------------------------------------------------------------------------
# (a) generate_mpo

def run_mpo(g, loc, acc):
    N = g['N']
    I = loc.I_mpo(N)
    kmax = 3 if (acc.tier != 'quick' or loc.d <= 2) else 2
    amps = [1, -0.5, 2j]
    for k in range(1, kmax + 1):
        for names in itertools.product(op_names(loc, k, acc.tier), repeat=k):
            for pos in itertools.product(range(N), repeat=k):
                acc.check_time()
                amp = amps[(sum(pos) + k) % 3]
                case = {'kind': 'mpo', 'fam': g['fam'], 'sym': g['sym'], 'N': N, 'ops': list(names), 'pos': list(pos), 'amp': _j(amp)}
                msg = mpo_case(case, loc, I)
                ncharged = sum(1 for n in names if any(loc.O[n].n))
                _rec(acc, case, msg, ncharged >= 2 or N >= 3, 'mpo')
    # sums of two terms of equal total charge; input forms of I; scalar position
    names = op_names(loc, 2, acc.tier)
    terms = []
    for a, b in itertools.product(names, repeat=2):
        if tuple(loc.config.sym.add_charges(loc.O[a].n, loc.O[b].n)) == tuple(loc.config.sym.zero()):
            terms.append((a, b))
    for (a, b), (c, d) in itertools.product(terms[:6], repeat=2):
        for p1 in [(0, N - 1), (N - 1, 0), (0, 0)]:
            if np.abs(ref_product(loc, [a, b], p1, N)).max() < 1e-14 or np.abs(ref_product(loc, [c, d], [N - 1, N - 1], N)).max() < 1e-14:
                acc.cnt['mposum_skipped_zero_term'] += 1
                continue        # a term whose local product vanishes identically (e.g. c c on one site) is not a meaningful Hterm
            case = {'kind': 'mposum', 'fam': g['fam'], 'sym': g['sym'], 'N': N, 't1': [a, b], 'p1': list(p1), 't2': [c, d], 'p2': [N - 1, N - 1]}
            msg = mposum_case(case, loc)
            _rec(acc, case, msg, True, 'mposum')
    for form in ('tensor', 'list', 'mpo', 'scalarpos', 'posN', 'pos-1'):
        case = {'kind': 'mpoform', 'fam': g['fam'], 'sym': g['sym'], 'N': N, 'form': form}
        msg = mpoform_case(case, loc)
        _rec(acc, case, msg, True, 'mpoform')


def _j(a):
    return {'re': a.real, 'im': a.imag} if isinstance(a, complex) else a


def _uj(a):
    return complex(a['re'], a['im']) if isinstance(a, dict) else a


def mpo_case(case, loc, I=None):
    N = case['N']
    I = I or loc.I_mpo(N)
    amp = _uj(case['amp'])
    names, pos = case['ops'], case['pos']
    st, H = TC.call(lambda: mps.generate_mpo(I, [mps.Hterm(amp, list(pos), [loc.O[n] for n in names])]))
    if st != 'ok':
        return f"generate_mpo(Hterm({amp}, {pos}, {names})): {st}: {H}"
    M = MG.dense_mat(H, loc)
    ref = amp * ref_product(loc, names, pos, N)
    if np.abs(M - ref).max() > TOL * max(1.0, np.abs(ref).max()):
        return (f"generate_mpo(Hterm({amp}, {pos}, {names})) differs from the Jordan-Wigner product "
                f"(max diff {np.abs(M - ref).max()}, |ref| {np.abs(ref).max()})")
    return None


def mposum_case(case, loc):
    N = case['N']
    I = loc.I_mpo(N)
    t1 = mps.Hterm(0.5, case['p1'], [loc.O[n] for n in case['t1']])
    t2 = mps.Hterm(-2.0, case['p2'], [loc.O[n] for n in case['t2']])
    st, H = TC.call(lambda: mps.generate_mpo(I, [t1, t2, t1]))
    if st != 'ok':
        return f"generate_mpo(sum): {st}: {H}"
    ref = 2 * 0.5 * ref_product(loc, case['t1'], case['p1'], N) - 2.0 * ref_product(loc, case['t2'], case['p2'], N)
    M = MG.dense_mat(H, loc)
    if np.abs(M - ref).max() > TOL * max(1.0, np.abs(ref).max()):
        return f"generate_mpo of a sum of terms differs from the sum of Jordan-Wigner products (max diff {np.abs(M - ref).max()})"
    return None


def mpoform_case(case, loc):
    N, form = case['N'], case['form']
    name = next(n for n in loc.O if n != 'I')
    O = loc.O[name]
    ref = ref_product(loc, [name], [N - 1], N)
    if form == 'tensor':
        f = lambda: mps.generate_mpo(loc.O['I'], [mps.Hterm(1, [N - 1], [O])], N=N)
    elif form == 'list':
        f = lambda: mps.generate_mpo([loc.O['I']] * N, [mps.Hterm(1, [N - 1], [O])])
    elif form == 'mpo':
        f = lambda: mps.generate_mpo(loc.I_mpo(N), [mps.Hterm(1, (N - 1,), (O,))])
    elif form == 'scalarpos':
        f = lambda: mps.generate_mpo(loc.I_mpo(N), [mps.Hterm(1, N - 1, O)])
    elif form == 'posN':
        st, r = TC.call(lambda: mps.generate_mpo(loc.I_mpo(N), [mps.Hterm(1, [N], [O])]))
        if st == 'yerr':
            return None
        return f"generate_mpo with position {N} outside 0..{N - 1} was not rejected with YastnError ({st}: {str(r)[:80]})"
    else:
        st, r = TC.call(lambda: mps.generate_mpo(loc.I_mpo(N), [mps.Hterm(1, [-1], [O])]))
        if st == 'yerr':
            return None
        if st == 'ok' and np.abs(MG.dense_mat(r, loc) - ref).max() < TOL:
            return None     # python-style negative index: acceptable reading
        return f"generate_mpo with position -1: {st}"
    st, H = TC.call(f)
    if st != 'ok':
        return f"generate_mpo with I given as {form}: {st}: {H}"
    if np.abs(MG.dense_mat(H, loc) - ref).max() > TOL:
        return f"generate_mpo with I given as {form} differs from the reference"
    return None


def run_fmap(g, loc, acc):
    names = op_names(loc, 2, acc.tier)
    ch = [n for n in names if any(loc.O[n].n)] or names
    for N in (3, 4):
        if loc.d > 2 and N > 3:
            continue
        I = loc.I_mpo(N)
        for fmap in itertools.permutations(range(N)):
            order = list(fmap)
            for a, b in itertools.product(ch[:4], repeat=2):
                for pos in itertools.permutations(range(N), 2):
                    acc.check_time()
                    case = {'kind': 'fmap', 'fam': g['fam'], 'sym': g['sym'], 'N': N, 'fmap': order, 'ops': [a, b], 'pos': list(pos)}
                    msg = fmap_case(case, loc, I)
                    _rec(acc, case, msg, True, 'fmap')


def fmap_case(case, loc, I=None):
    N = case['N']
    I = I or loc.I_mpo(N)
    a, b = case['ops']
    pos, fmap = case['pos'], case['fmap']
    st, H = TC.call(lambda: mps.generate_mpo(I, [mps.Hterm(1.0, list(pos), [loc.O[a], loc.O[b]])], f_map=list(fmap)))
    if st != 'ok':
        return f"generate_mpo(f_map={fmap}): {st}: {H}"
    ref = ref_product(loc, [a, b], pos, N, order=fmap)
    M = MG.dense_mat(H, loc)
    if np.abs(M - ref).max() > TOL:
        return (f"generate_mpo(Hterm(1, {pos}, [{a}, {b}]), f_map={fmap}) differs from the Jordan-Wigner product in the mapped "
                f"fermionic order (max diff {np.abs(M - ref).max()})")
    return None


# ---------------------------------------------------------------------------------------------
# (c) measurements

def run_measure(g, loc, acc):
    N = g['N']
    sym = loc.config.sym
    charges = loc.charges_N(N)
    spaces = [loc.space] * N
    names1 = [n for n in loc.O if n != 'I']
    names2 = op_names(loc, 2, acc.tier)
    kets = {}
    mid = charges[len(charges) // 2]
    for nk in dict.fromkeys([mid, charges[0]]):
        psi = MG.random_state(loc, N, nk, 4, (acc.seed, 'c07k', loc.fam, loc.sym, N, nk), integer=False, cplx=True)
        if psi is not None:
            kets[nk] = psi

    def bra_for(nb, tag):
        if nb not in charges:
            return None
        return MG.random_state(loc, N, nb, 3, (acc.seed, 'c07b', loc.fam, loc.sym, N, nb, tag), integer=False, cplx=True)
    for nk, ket in kets.items():
        vk = MG.dense_vec(ket, loc)
        # 1-site
        for a in names1:
            nb = tuple(sym.add_charges(nk, loc.O[a].n))
            bra = bra_for(nb, a)
            if bra is None:
                continue
            vb = MG.dense_vec(bra, loc)
            case = {'kind': 'm1', 'fam': g['fam'], 'sym': g['sym'], 'N': N, 'nk': list(nk), 'op': a}
            st, res = TC.call(lambda: mps.measure_1site(bra, loc.O[a], ket))
            msg = None
            if st != 'ok':
                msg = f"measure_1site({a}): {st}: {res}"
            else:
                for i in range(N):
                    ref = np.vdot(vb, JW.jw(loc.O[a], i, spaces, loc.config) @ vk)
                    if i not in res or abs(res[i] - ref) > TOL * max(1, abs(ref)):
                        msg = f"measure_1site({a})[{i}] = {res.get(i)}, dense {ref}"
                        break
                if not msg:
                    r2 = mps.measure_1site(bra, {1: loc.O[a]}, ket)
                    r3 = mps.measure_1site(bra, loc.O[a], ket, sites=[0, N - 1])
                    if set(r2) != {1} or abs(r2[1] - res[1]) > 1e-12 or set(r3) != {0, N - 1} or abs(r3[0] - res[0]) > 1e-12:
                        msg = f"measure_1site dict/sites forms disagree: {r2} {r3} vs {res}"
            _rec(acc, case, msg, any(loc.O[a].n), 'm1')
        # 2-site: every pair, every bonds form; n-site with repetitions
        for a, b in itertools.product(names2, repeat=2):
            acc.check_time()
            ntot = sym.add_charges(loc.O[a].n, loc.O[b].n)
            nb = tuple(sym.add_charges(nk, ntot))
            bra = bra_for(nb, a + b)
            if bra is None:
                continue
            vb = MG.dense_vec(bra, loc)
            refs = {(i, j): np.vdot(vb, JW.jw(loc.O[a], i, spaces, loc.config) @ JW.jw(loc.O[b], j, spaces, loc.config) @ vk)
                    for i in range(N) for j in range(N)}
            for bonds in ('a', '<', '=', '>', '<>', 'r1', 'r-1', 'r1p', 'r2', 'r1r-2', [(0, N - 1), (N - 1, 0), (1, 1)], (N - 1, 0)):
                case = {'kind': 'm2', 'fam': g['fam'], 'sym': g['sym'], 'N': N, 'nk': list(nk), 'ops': [a, b], 'bonds': bonds if isinstance(bonds, str) else [list(x) if isinstance(x, tuple) else x for x in bonds]}
                msg = m2_check(loc, bra, ket, a, b, bonds, refs, N)
                _rec(acc, case, msg, any(loc.O[a].n) and any(loc.O[b].n), 'm2')
            for sites in itertools.product(range(N), repeat=2):
                case = {'kind': 'mn', 'fam': g['fam'], 'sym': g['sym'], 'N': N, 'nk': list(nk), 'ops': [a, b], 'sites': list(sites)}
                st, v = TC.call(lambda: mps.measure_nsite(bra, loc.O[a], loc.O[b], ket=ket, sites=sites))
                msg = None
                if st != 'ok':
                    msg = f"measure_nsite({a},{b}; {sites}): {st}: {v}"
                elif abs(v - refs[sites]) > TOL * max(1, abs(refs[sites])):
                    msg = f"measure_nsite({a},{b}; sites={sites}) = {v}, dense {refs[sites]}"
                _rec(acc, case, msg, True, 'mn')
        # 3-site products with repetitions (neutral total charge: bra = ket sector)
        trip = [t for t in itertools.product(names2[:4], repeat=3)
                if tuple(sym.add_charges(*[loc.O[n].n for n in t])) == tuple(sym.zero())]
        for t in trip[: (6 if acc.tier == 'quick' else 30)]:
            for sites in itertools.product(range(N), repeat=3):
                acc.check_time()
                case = {'kind': 'mn', 'fam': g['fam'], 'sym': g['sym'], 'N': N, 'nk': list(nk), 'ops': list(t), 'sites': list(sites)}
                ref = np.vdot(vk, ref_product(loc, t, sites, N) @ vk)
                st, v = TC.call(lambda: mps.measure_nsite(ket, *[loc.O[n] for n in t], ket=ket, sites=sites))
                msg = None
                if st != 'ok':
                    msg = f"measure_nsite({t}; {sites}): {st}: {v}"
                elif abs(v - ref) > TOL * max(1, abs(ref)):
                    msg = f"measure_nsite({t}; sites={sites}) = {v}, dense {ref}"
                _rec(acc, case, msg, True, 'mn3')
        # rdm, operational: tr(rho O) for every neutral operator tuple on every ordered site subset
        ketc = ket.copy()
        ketc.canonize_(to='first')
        vkc = MG.dense_vec(ketc, loc)
        for k in (1, 2):
            for sites in itertools.permutations(range(N), k):
                acc.check_time()
                case = {'kind': 'rdm', 'fam': g['fam'], 'sym': g['sym'], 'N': N, 'nk': list(nk), 'sites': list(sites)}
                msg = rdm_check(loc, ketc, vkc, sites, N, names2)
                _rec(acc, case, msg, k == 2, 'rdm')


def m2_check(loc, bra, ket, a, b, bonds, refs, N):
    st, res = TC.call(lambda: mps.measure_2site(bra, loc.O[a], loc.O[b], ket, bonds=bonds))
    if st != 'ok':
        return f"measure_2site({a},{b}, bonds={bonds}): {st}: {res}"
    if isinstance(bonds, tuple):
        ref = refs[bonds]
        return None if abs(res - ref) <= TOL * max(1, abs(ref)) else f"measure_2site({a},{b}, bonds={bonds}) = {res}, dense {ref}"
    exp = expected_pairs(bonds, N)
    if set(res) != set(exp):
        return f"measure_2site(bonds={bonds!r}) returns pairs {sorted(res)}, expected {sorted(exp)}"
    for (i, j), v in res.items():
        if abs(v - refs[(i, j)]) > TOL * max(1, abs(refs[(i, j)])):
            return f"measure_2site({a},{b}, bonds={bonds!r})[{(i, j)}] = {v}, dense <bra|{a}_{i} {b}_{j}|ket> = {refs[(i, j)]}"
    return None


def expected_pairs(bonds, N):
    if not isinstance(bonds, str):
        return set(tuple(x) for x in bonds)
    if 'a' in bonds:
        return {(i, j) for i in range(N) for j in range(N)}
    out = set()
    s = bonds
    if '<' in s:
        out |= {(i, j) for i in range(N) for j in range(i + 1, N)}
    if '=' in s:
        out |= {(i, i) for i in range(N)}
    if '>' in s:
        out |= {(i, j) for i in range(N) for j in range(i)}
    pbc = 'p' in s
    rs = s.replace('<', '').replace('=', '').replace('>', '').replace('p', '')
    for r in rs.split('r')[1:]:
        r = int(r)
        for i in range(N):
            j = i + r
            if pbc:
                out.add((i, j % N))
            elif 0 <= j < N:
                out.add((i, j))
    return out


def rdm_check(loc, ket, vk, sites, N, names2):
    st, rho = TC.call(lambda: mps.rdm(ket, *sites))
    if st != 'ok':
        return f"rdm{sites}: {st}: {rho}"
    k = len(sites)
    sym = loc.config.sym
    tr = rho.trace(axes=(tuple(range(0, 2 * k, 2)), tuple(range(1, 2 * k, 2)))).to_number()
    if abs(tr - 1) > 1e-9:
        return f"trace of rdm{sites} = {tr}"
    opsets = [t for t in itertools.product(['I'] + names2[:4], repeat=k)
              if tuple(sym.add_charges(*[loc.O[n].n for n in t])) == tuple(sym.zero())]
    for t in opsets:
        if k == 1:
            val = yastn.einsum('ab,ba', rho, loc.O[t[0]]).to_number()
        else:
            val = yastn.einsum('abcd,badc', rho, yastn.fkron(loc.O[t[0]], loc.O[t[1]])).to_number()
        ref = np.vdot(vk, ref_product(loc, t, sites, N) @ vk)
        if abs(val - ref) > 1e-9 * max(1, abs(ref)):
            return f"tr(rdm{sites} {t}) = {val}, dense <{t[0]}_{sites[0]}...> = {ref}"
    return None


# ---------------------------------------------------------------------------------------------
# sampling with forced outcomes

class Cut:
    """scripted cut value: the comparison `accumulated_probability < cut` is True for the first `target` outcomes"""
    def __init__(self, target):
        self.target, self.count = target, 0

    def __gt__(self, other):
        self.count += 1
        return self.count <= self.target


def run_sample(g, loc, acc):
    import yastn.backend.backend_np as bk
    ops = loc.ops
    if loc.fam == 'spinless':
        vecs = [ops.vec_n(0), ops.vec_n(1)]
    elif loc.fam == 'spin12':
        vecs = [ops.vec_z(1), ops.vec_z(-1)]
    else:
        vecs = [ops.vec_n((0, 0)), ops.vec_n((1, 0)), ops.vec_n((0, 1)), ops.vec_n((1, 1))]
    nv = len(vecs)
    for N in ((2, 3) if nv > 2 else (2, 3, 4)):
        charges = loc.charges_N(N)
        for nk in dict.fromkeys([charges[len(charges) // 2], charges[0]]):
          for gauge in ('first', 'last', 'asbuilt'):
            psi = MG.random_state(loc, N, nk, 3, (acc.seed, 'c07s', loc.fam, loc.sym, N, nk), integer=False)
            if psi is None:
                continue
            if gauge != 'asbuilt':
                psi.canonize_(to=gauge)     # sample() must bring any input gauge to the one it needs
            v = MG.dense_vec(psi, loc)
            v = v / np.linalg.norm(v)
            # dense probability of each configuration of projector indices
            pv = [MG.dense_local(vec, loc) for vec in vecs]
            tot = 0.0
            orig = bk.rand
            msg = None
            for conf in itertools.product(range(nv), repeat=N):
                amp = v.reshape((loc.d,) * N)
                for k_, c in enumerate(conf):
                    amp = np.tensordot(pv[c].conj(), amp, axes=(0, 0))
                pref = abs(amp) ** 2
                if pref < 1e-13:
                    continue          # an outcome of zero probability cannot be selected by a real cut value
                it = iter(conf)

                def fake_rand(D, **kw):
                    return [Cut(next(it))]
                bk.rand = fake_rand
                try:
                    st, out = TC.call(lambda: mps.sample(psi, vecs, number=1, return_probabilities=True))
                finally:
                    bk.rand = orig
                case = {'kind': 'sample', 'fam': g['fam'], 'sym': g['sym'], 'N': N, 'nk': list(nk), 'gauge': gauge, 'conf': list(conf)}
                if st != 'ok':
                    m = f"sample with forced outcomes {conf}: {st}: {out}"
                else:
                    s, p = out
                    m = None
                    # the forced index counts outcomes in accumulated order; zero-probability outcomes are passed over
                    if abs(p[0] - pref_of(v, pv, list(s[0]), loc, N)) > 1e-9:
                        m = f"sample returned configuration {list(s[0])} with probability {p[0]}, Born probability {pref_of(v, pv, list(s[0]), loc, N)}"
                    tot += 0
                _rec(acc, case, m, True, 'sample')
            # completeness: the probabilities of all configurations with non-zero weight sum to one
            allp = 0.0
            for conf in itertools.product(range(nv), repeat=N):
                allp += pref_of(v, pv, list(conf), loc, N)
            if abs(allp - 1) > 1e-9:
                acc.fail({'kind': 'sample', 'fam': g['fam'], 'sym': g['sym'], 'N': N, 'nk': list(nk)}, f"harness: Born probabilities sum to {allp}")


def pref_of(v, pv, conf, loc, N):
    amp = v.reshape((loc.d,) * N)
    for c in conf:
        amp = np.tensordot(pv[c].conj(), amp, axes=(0, 0))
    return float(abs(amp) ** 2)


# ---------------------------------------------------------------------------------------------
# (b) Generator

def run_generator(g, loc, acc):
    N = 3
    ops = loc.ops
    try:
        gen = mps.Generator(N, ops)
    except Exception as e:
        acc.cnt['generator_unavailable'] += 1
        return
    if loc.fam == 'spinless':
        pairs = [('cp', 'c'), ('c', 'cp'), ('n', 'n')]
        single = ['n']
    else:
        pairs = [('x', 'x'), ('z', 'z'), ('sp', 'sm')]
        single = ['z', 'x']
    coefs = ['', '2 ', '-0.5 ', 't ', '- t ']
    params = {'t': 0.7, 'mu': -1.3, 'rN': list(range(N)), 'rNN': [[i, i + 1] for i in range(N - 1)]}
    for (a, b) in pairs:
        for i, j in itertools.product(range(N), repeat=2):
            for cf in coefs:
                for star in (' ', '*', '  '):
                    acc.check_time()
                    pre, cfs = ('-', 't ') if cf == '- t ' else ('', '(-0.5) ' if cf == '-0.5 ' else cf)
                    s = f"{pre}\\sum_{{i,j \\in P}} {cfs}{a}_{{i}}{star}{b}_{{j}}"
                    val = {'': 1, '2 ': 2, '-0.5 ': -0.5, 't ': 0.7, '- t ': -0.7}[cf]
                    ref = val * ref_product(loc, [a, b], [i, j], N)
                    prm = dict(params, P=[(i, j)])
                    case = {'kind': 'generator', 'fam': g['fam'], 'sym': g['sym'], 'str': s, 'P': [i, j]}
                    _rec(acc, case, gen_case(gen, s, prm, ref, loc), True, 'generator')
    for a in single:
        s = f"\\sum_{{j \\in rN}} mu {a}_{{j}}"
        ref = sum(-1.3 * ref_product(loc, [a], [j], N) for j in range(N))
        _rec(acc, {'kind': 'generator', 'fam': g['fam'], 'sym': g['sym'], 'str': s}, gen_case(gen, s, params, ref, loc), True, 'generator')
        s2 = f"\\sum_{{j \\in rN}} mu {a}_{{j}} + \\sum_{{k \\in r0}} 2 {a}_{{k}} - \\sum_{{k \\in r2}} {a}_{{k}}"
        ref2 = ref + 2 * ref_product(loc, [a], [0], N) - ref_product(loc, [a], [2], N)
        _rec(acc, {'kind': 'generator', 'fam': g['fam'], 'sym': g['sym'], 'str': s2}, gen_case(gen, s2, dict(params, r0=[0], r2=[2]), ref2, loc), True, 'generator')
    for (a, b) in pairs:
        s = f"\\sum_{{i,j \\in rNN}} t ({a}_{{i}} {b}_{{j}} + {a}_{{j}} {b}_{{i}})"
        ref = sum(0.7 * (ref_product(loc, [a, b], [i, j], N) + ref_product(loc, [a, b], [j, i], N)) for i, j in params['rNN'])
        _rec(acc, {'kind': 'generator', 'fam': g['fam'], 'sym': g['sym'], 'str': s}, gen_case(gen, s, params, ref, loc), True, 'generator')


def gen_case(gen, s, params, ref, loc):
    st, H = TC.call(lambda: gen.mpo_from_latex(s, parameters=params))
    if st != 'ok':
        if st == 'yerr':
            return None if 'not' in str(H).lower() and False else f"Generator('{s}'): YastnError {H}"
        return f"Generator('{s}'): {H}"
    M = MG.dense_mat(H, loc)
    if np.abs(M - ref).max() > TOL * max(1.0, np.abs(ref).max()):
        return f"Generator('{s}') differs from the evaluated expression (max diff {np.abs(M - ref).max()})"
    return None


# ---------------------------------------------------------------------------------------------
# (d) on-site algebra

def run_onsite(g, loc, acc):
    O, sp = loc.O, loc.space
    D = {n: JW.dense_op(o, sp) for n, o in O.items()}
    d = loc.d
    eye = np.eye(d)
    checks = []
    if loc.fam == 'spinless':
        checks = [('{c,cp}=1', D['c'] @ D['cp'] + D['cp'] @ D['c'], eye), ('n=cp c', D['cp'] @ D['c'], D['n']), ('c c=0', D['c'] @ D['c'], 0 * eye)]
    elif loc.fam in ('spinful', 'tJ'):
        for s_ in 'ud':
            checks.append((f'n{s_}=cp{s_} c{s_}', D['cp' + s_] @ D['c' + s_], D['n' + s_]) if ('n' + s_) in D else ('skip', eye, eye))
        if loc.fam == 'spinful':
            for s_ in 'ud':
                checks.append((f'{{c{s_},cp{s_}}}=1', D['c' + s_] @ D['cp' + s_] + D['cp' + s_] @ D['c' + s_], eye))
            fss = JW.fss_of(loc.config)
            # on-site: the two species anticommute if indistinguishable statistics, commute for U1xU1 distinguishable
            ac = D['cu'] @ D['cd'] + D['cd'] @ D['cu']
            cm = D['cu'] @ D['cd'] - D['cd'] @ D['cu']
            checks.append(('species (anti)commute on site', 0 * eye if (np.abs(ac).max() < 1e-12 or np.abs(cm).max() < 1e-12) else eye, 0 * eye))
    elif loc.fam == 'spin12':
        if 'x' in D and 'y' in D:
            checks.append(('[x,y]=2i z', D['x'] @ D['y'] - D['y'] @ D['x'], 2j * D['z']))
        checks.append(('[sp,sm]=z', D['sp'] @ D['sm'] - D['sm'] @ D['sp'], D['z']))
        checks.append(('z^2=1', D['z'] @ D['z'], eye))
    elif loc.fam == 'spin1':
        checks.append(('[sp,sm]=2 sz', D['sp'] @ D['sm'] - D['sm'] @ D['sp'], 2 * D['sz']))
        if 'sx' in D:
            checks.append(('sx=(sp+sm)/2', D['sx'], (D['sp'] + D['sm']) / 2))
    checks.append(('I', D['I'], eye))
    for name, lhs, rhs in checks:
        if name == 'skip':
            continue
        msg = None if np.abs(lhs - rhs).max() < 1e-12 else f"on-site relation {name} violated for {loc.fam}/{loc.sym}"
        _rec(acc, {'kind': 'onsite', 'fam': g['fam'], 'sym': g['sym'], 'rel': name}, msg, True, 'onsite')


def replay(case):
    loc = MG.Local(case['fam'], case['sym'])
    k = case['kind']
    if k == 'mpo':
        m = mpo_case(case, loc)
        return [m] if m else []
    if k == 'mposum':
        m = mposum_case(case, loc)
        return [m] if m else []
    if k == 'mpoform':
        m = mpoform_case(case, loc)
        return [m] if m else []
    if k == 'fmap':
        m = fmap_case(case, loc)
        return [m] if m else []
    acc = _Mini()
    acc.seed = case.get('seed', 0)
    g = {'fam': case['fam'], 'sym': case['sym'], 'N': case.get('N', 3), 'kind': k}
    runner = {'m1': run_measure, 'm2': run_measure, 'mn': run_measure, 'rdm': run_measure, 'sample': run_sample, 'generator': run_generator,
              'onsite': run_onsite}[k]
    runner(g, loc, acc)
    keys = [x for x in ('op', 'ops', 'bonds', 'sites', 'conf', 'str', 'rel', 'nk') if x in case]
    return [v['msg'] for v in acc.violations if v['case'].get('kind') == k and all(v['case'].get(x) == case.get(x) for x in keys)][:3]


class _Mini:
    def __init__(self):
        self.violations, self.cnt = [], collections.Counter()
        self.evaluations = 0
        self.tier, self.seed = 'quick', 0

    def ev(self, *a, **k):
        self.evaluations += 1

    def fail(self, case, msg, key=None):
        self.violations.append({'case': case, 'msg': msg})

    def sample(self, c):
        pass

    def check_time(self):
        pass


def finalize(summary, tier):
    errs = []
    c = summary['cnt']
    for k in ('mpo_ok', 'fmap_ok', 'm1_ok', 'm2_ok', 'mn_ok', 'rdm_ok', 'sample_ok', 'generator_ok', 'onsite_ok'):
        if c.get(k, 0) < 20:
            errs.append(f"vacuity: {k} = {c.get(k, 0)}")
    return errs
