"""
C02 - Every produced tensor is well-formed and conserves charge.

Explicit-state breadth-first search over programs (sequences of public operations) on the real implementation.
State = tensor object (canonical byte string of all its fields); transition = one action of gen/programs.
Monitors on every produced tensor: Tensor.is_consistent(), the independent predicate models/wf.wf (selection
rule under the reference group law, sorted unique blocks, contiguous slices, per-leg dimensions, fusion records,
python-int types, zero outside allowed sectors) and the charge the algebra dictates for the action.
"""
import collections

import numpy as np
import yastn

from vmc.engine.runner import h64
from vmc.gen import configs as GC, legs as GL, tensors as GT, programs as P
from vmc.models import wf as WF, groups as G
from . import _tcommon as TC

PROPERTY_ID = 'C02'
LEVEL = 'model_checking'
RULE = ("explicit-state BFS over operation sequences; state = canonical bytes of the tensor object; non-trivial "
        "state = tensor with >= 2 blocks; one evaluation = one executed transition; distinct states counted by hash")
ASSUMPTIONS = ["reference group law (models/groups)", "reading of the Tensor data structure in models/wf.py",
               "NumPy backend; float64 and complex128"]
BUDGET = {'quick': 150, 'thorough': 1200}


def seeds(sym, tier):
    ms = GL.msize(sym, 2)
    nch = min(2, len(GL.CHARGES[sym]))
    out = []
    sigs = {0: [[]], 1: [[1]], 2: [[1, -1], [1, 1]], 3: [[1, -1, 1]], 4: [[1, 1, -1, -1]], 5: [[1, -1, 1, -1, 1]],
            6: [[1, -1, 1, -1, 1, -1]]}
    for r in (2, 3, 4):
        for sig in sigs[r]:
            for n in range(nch):
                for drop in (None, [1]):
                    out.append({'s': sig, 'm': [i % ms for i in range(r)], 'n': n, 'drop': drop, 'var': ['fresh']})
    out.append({'s': [1, -1], 'm': [0, 0], 'n': 0, 'drop': None, 'var': ['fresh']})          # square matrix
    out.append({'s': [1, -1], 'm': [0, 0], 'n': 0, 'drop': None, 'diag': True, 'var': ['fresh']})
    out.append({'s': [-1, 1], 'm': [min(1, ms - 1)] * 2, 'n': 0, 'drop': [0], 'diag': True, 'var': ['fresh']})
    for r in (0, 1, 5, 6):
        out.append({'s': sigs[r][0], 'm': [i % ms for i in range(r)], 'n': (nch - 1) if r else 0, 'drop': None,
                    'var': ['fresh'], 'structural_only': True})
    out.append({'s': [1, -1, 1], 'm': [0, min(1, ms - 1), 0], 'n': nch - 1, 'drop': None, 'var': ['lazy', [2, 0, 1]]})
    # seed tensors carrying two dimension-one charged legs (the virtual-leg pattern of operators): fusing and removing them
    for axes in ((0, 0), (0, -1), (-1, -1)):
        out.append({'s': [1, -1], 'm': [0, min(1, ms - 1)], 'n': 0, 'drop': None, 'var': ['fresh'],
                    'pre': [{'op': 'add_leg', 'axis': axes[0], 's': 1, 't': 1}, {'op': 'add_leg', 'axis': axes[1], 's': -1 if axes[0] == axes[1] else 1, 't': 1}]})
    return out


def groups(tier, seed):
    gs = []
    for sym in GC.SYMS:
        for i, td in enumerate(seeds(sym, tier)):
            r = len(td['s'])
            dts = ['float64'] if (i % 3 or tier == 'quick' and r >= 4) else ['float64', 'complex128']
            for dt in dts:
                depth = 2
                if tier != 'quick':
                    depth = 3 if r <= 3 else 2
                if td.get('structural_only'):
                    depth = 1 if r >= 5 else 2
                gs.append({'sym': sym, 'dtype': dt, 'td': td, 'depth': depth, 'level': 1 if r <= 3 else 2})
                # the other contraction policies build the result structure by different code (no merge for 'no_fusion')
                if dt == 'float64' and 2 <= r <= 3 and i % 2 == 0 and not td.get('structural_only'):
                    for pol in ('no_fusion', 'fuse_contracted'):
                        gs.append({'sym': sym, 'dtype': dt, 'policy': pol, 'td': td, 'depth': depth, 'level': 2})
    return gs


def monitors(y, exp_n, lab, action):
    if not isinstance(y, yastn.Tensor):
        return f"{action['op']} returned {type(y).__name__} instead of a Tensor"
    m = P.fields_selftest(y)
    if m:
        return m
    try:
        y.is_consistent()
    except (AssertionError, yastn.YastnError) as e:
        return f"{lab} of {action}: is_consistent() fails ({type(e).__name__}: {e})"
    m = WF.wf(y)
    if m:
        return f"{lab} of {action}: not well-formed: {m}"
    if exp_n is not None and tuple(y.n) != tuple(exp_n):
        return f"{lab} of {action}: total charge {tuple(y.n)}, algebra dictates {tuple(exp_n)}"
    return None


def build_seed(cfg, sym, td, seed):
    x = GT.build(cfg, sym, {k: v for k, v in td.items() if k != 'pre'}, seed).x
    for act in td.get('pre', []):
        x = P.apply(x, act)[0][1]
    return x


def run_program(cfg, sym, td, seed, hist):
    """replays a history (list of [action, successor label]) on a fresh seed tensor; returns final tensor"""
    x = build_seed(cfg, sym, td, seed)
    for act, lab in hist:
        outs = P.apply(x, act)
        x = dict((l, y) for l, y, _ in outs)[lab]
    return x


def run_group(g, acc):
    sym = g['sym']
    cfg = GC.make(sym, dtype=g['dtype'], policy=g.get('policy', 'fuse_to_matrix'))
    x0 = build_seed(cfg, sym, g['td'], acc.seed)
    m = monitors(x0, x0.n, 'seed', {'op': 'seed'})
    if m:
        acc.fail({'sym': sym, 'dtype': g['dtype'], 'policy': g.get('policy', 'fuse_to_matrix'), 'td': g['td'], 'hist': []}, m)
        return
    level = 0 if acc.tier == 'quick' else 1
    seen = {h64(P.canon(x0))}
    frontier = collections.deque([(x0, [])])
    acc.states += 1
    explore(g, sym, frontier, seen, acc, level, g['depth'])


def explore(g, sym, frontier, seen, acc, level, maxdepth, extra_monitor=None):
    while frontier:
        x, hist = frontier.popleft()
        if len(hist) >= maxdepth:
            continue
        for act in P.enabled(x, level):
            acc.check_time()
            case = {'sym': sym, 'dtype': g['dtype'], 'policy': g.get('policy', 'fuse_to_matrix'), 'td': g['td'], 'hist': hist, 'action': act}
            st, outs = TC.call(P.apply, x, act)
            acc.transitions += 1
            nontriv = len(x.get_blocks_charge()) >= 2
            acc.ev(None, False, (act['op'], st))
            if st == 'yerr':
                acc.cnt['rejected_by_contract'] += 1
                continue
            if st == 'exc':
                acc.fail(case, f"{act} raised {outs} (history {hist})")
                continue
            for lab, y, exp_n in outs:
                if lab == 'num':
                    if not np.isfinite(complex(y)):
                        acc.fail(case, f"{act} returned non-finite number {y}")
                    continue
                m = monitors(y, exp_n, lab, act)
                if extra_monitor and not m:
                    m = extra_monitor(x, act, lab, y)
                if m:
                    acc.fail(case, m + f" (history {hist})")
                    continue
                k = h64(P.canon(y))
                if k not in seen:
                    seen.add(k)
                    acc.states += 1
                    if len(y.get_blocks_charge()) >= 2:
                        acc.nontrivial.add(k)
                    acc.cnt['op_' + act['op']] += 1
                    if acc.states % 977 == 0:
                        acc.sample({'sym': sym, 'td': g['td'], 'hist': hist + [[act, lab]]})
                    frontier.append((y, hist + [[act, lab]]))


def replay(case):
    cfg = GC.make(case['sym'], dtype=case['dtype'], policy=case.get('policy', 'fuse_to_matrix'))
    x = run_program(cfg, case['sym'], case['td'], case.get('seed', 0), case['hist'])
    if 'action' not in case:
        m = monitors(x, None, 'state', {'op': 'seed'})
        return [m] if m else []
    st, outs = TC.call(P.apply, x, case['action'])
    if st == 'yerr':
        return []
    if st == 'exc':
        return [f"{case['action']} raised {outs}"]
    msgs = []
    for lab, y, exp_n in outs:
        if lab == 'num':
            continue
        m = monitors(y, exp_n, lab, case['action'])
        if m:
            msgs.append(m)
    return msgs


def finalize(summary, tier):
    errs = []
    if summary['states'] < 5000:
        errs.append(f"vacuity: only {summary['states']} states")
    ops = [k for k in summary['cnt'] if k.startswith('op_')]
    if len(ops) < 30:
        errs.append(f"vacuity: only {len(ops)} distinct operations produced new states")
    return errs
