"""
C14 - Results do not depend on contraction policy, fusion mode or lazy state.

(a) lockstep explicit-state BFS over programs: every state is held simultaneously in all 18 configurations
    {3 tensordot policies} x {default_fusion hard, meta} x {force_fusion None, hard, meta} and in deviation lineages
    (consume_transpose / copy / fuse_meta_to_hard inserted before operations: every placement of consume_transpose
    within the depth, copy and fuse_meta_to_hard at all points) under each policy; after every transition the
    observations (rank, signature, charge, elementary legs, dense values after unfusing) of all lineages must agree.
(b) contract_with_unroll: network catalogue x every pairwise contraction path and optimizer paths x unroll
    specifications (labels x {make_sliced_legs, int sizes, hand-built intra-sector split}) vs plain ncon (bitwise).
"""
import collections
import itertools

import numpy as np
import yastn

from vmc.engine.runner import h64
from vmc.gen import configs as GC, legs as GL, tensors as GT, programs as P, networks as NW
from vmc.models import dense as MD, groups as G
from . import _tcommon as TC
from . import _netcommon as NC
from .c03 import fully_unfuse

PROPERTY_ID = 'C14'
LEVEL = 'model_checking'
RULE = ("lockstep BFS: one state = the same program result held in 18 configurations + deviation lineages; one transition = "
        "one action applied in every lineage with observations compared; non-trivial = reference tensor has >= 2 blocks; "
        "unroll part: one evaluation = one (network, path, unroll spec) contraction compared with ncon")
ASSUMPTIONS = ["fused legs are compared after unfusing to elementary legs (internal order inside a fused sector is not observable)",
               "factorisations are observed through gauge-invariant quantities (S, U S V, Q R) only"]
BUDGET = {'quick': 170, 'thorough': 1200}
TOL = 1e-11

DEVS = ['c_all', 'c_1', 'c_2', 'copy_all', 'm2h_all', 'shallow_all']

# (flip_charges / switch_signature / diag are documented to support only one kind of fused leg: their acceptance
#  legitimately depends on the fusion mode, so they are not part of this alphabet)
ACTION_OPS = {'conj', 'flip_signature', 'transpose', 'moveaxis', 'add_self', 'sub_self', 'dot_conj', 'dot_conj_last', 'dot_fresh',
              'ncon_self', 'trace', 'fuse_legs', 'unfuse_legs', 'fuse_meta_to_hard', 'consume_transpose', 'mul', 'add_leg',
              'remove_leg', 'block'}
TERMINAL_OPS = {'svd', 'qr', 'svd_S', 'vdot_self', 'norm', 'svd_trunc', 'eigh_gram'}


def lineages():
    L = []
    for c in GC.all_18():
        L.append(('cfg', c['policy'], c['default_fusion'], c['force_fusion'], None))
    for p in GC.POLICIES:
        for d in DEVS:
            L.append(('dev', p, 'hard', None, d))
    return L


def seeds(sym, tier):
    ms = GL.msize(sym, 2)
    nch = min(2, len(GL.CHARGES[sym]))
    out = []
    for r, sig in ((2, [1, -1]), (3, [1, -1, 1]), (3, [-1, -1, 1]), (4, [1, 1, -1, -1])):
        for n in range(nch):
            if tier == 'quick' and ((r == 4) or (r == 3 and sig[0] == -1 and n == 0) or (r == 3 and sig[0] == 1 and n == 1)):
                continue
            out.append({'s': sig, 'm': [i % ms for i in range(r)], 'n': n, 'drop': [1] if n == 0 else None, 'var': ['fresh']})
    out.append({'s': [1, -1, 1], 'm': [0, ms - 1, 0], 'n': nch - 1, 'drop': None, 'var': ['lazy', [2, 0, 1]]})
    return out


def groups(tier, seed):
    gs = []
    for sym in GC.SYMS:
        for td in seeds(sym, tier):
            r = len(td['s'])
            depth = 2 if (tier == 'quick' or r >= 4) else 3
            gs.append({'kind': 'bfs', 'sym': sym, 'td': td, 'depth': depth, 'level': 1 if r <= 3 else 2})
        P_ = 2 if tier == 'quick' else 8
        for part in range(P_):
            gs.append({'kind': 'unroll', 'sym': sym, 'part': part, 'parts': P_, 'level': 1})
    return gs


def run_group(g, acc):
    if g['kind'] == 'bfs':
        return run_bfs(g, acc)
    return run_unroll(g, acc)


# -------------------------------------------------------------------------------------------------

def observe(x):
    """configuration-independent observation of a tensor"""
    if not isinstance(x, yastn.Tensor):
        v = complex(x)
        return ('num', round(v.real, 9), round(v.imag, 9)), None
    u = fully_unfuse(x)
    legs = u.get_legs(native=True) if u.ndim_n else ()
    # (the total dimension of a FUSED leg is not an observable: hard fusion records full products of the sub-sectors,
    #  meta fusion only the combinations that hold blocks; elementary legs are compared after unfusing in same_obs)
    head = (x.ndim, tuple(x.s) if x.ndim else (), tuple(x.n), tuple(l.s for l in legs))
    return head, u


def same_obs(o1, o2, exact):
    (h1, u1), (h2, u2) = o1, o2
    if h1 != h2:
        return f"observations differ: {h1} vs {h2}"
    if u1 is None:
        return None
    l1, l2 = u1.get_legs(native=True), u2.get_legs(native=True)
    try:
        sp = [MD.union(dict(zip(a.t, a.D)), dict(zip(b.t, b.D))) for a, b in zip(l1, l2)]
    except MD.ShadowError as e:
        return f"elementary legs are inconsistent: {e}"
    d1, d2 = MD.dense(u1, sp), MD.dense(u2, sp)
    if exact:
        if not np.array_equal(d1, d2):
            return f"dense values differ (max {np.max(np.abs(d1 - d2))})"
    elif not np.allclose(d1, d2, atol=TOL * max(1.0, float(np.max(np.abs(d1))) if d1.size else 1.0), rtol=0):
        return f"dense values differ (max {np.max(np.abs(d1 - d2))})"
    return None


def _bytes_noconfig(x):
    if not isinstance(x, yastn.Tensor):
        return repr(x).encode()
    return repr((x.struct, x.slices, tuple(x.trans), x.mfs, x.hfs, str(x._data.dtype))).encode() + x._data.tobytes()


def deviate(x, dev, step):
    """apply the lineage's deviation to the operand of step `step` (1-based)"""
    if dev is None:
        return x
    if dev == 'c_all' or (dev == 'c_1' and step == 1) or (dev == 'c_2' and step == 2):
        return x.consume_transpose()
    if dev == 'copy_all':
        return x.copy()
    if dev == 'shallow_all':
        return x.shallow_copy()
    if dev == 'm2h_all':
        return x.fuse_meta_to_hard()
    return x


def _nz(sv, nd):
    """spectrum without (numerically) zero values: their number depends on the recorded size of fused legs"""
    return tuple(float(v) for v in np.round(sv, nd) if abs(v) > 1e-8)


def terminal_obs(x, act):
    """gauge-invariant observation of a factorisation / number"""
    outs = P.apply(x, act)
    d = {lab: y for lab, y, _ in outs}
    op = act['op']
    if op == 'svd':
        S = d['S']
        sv = np.sort(np.concatenate([np.asarray(S[t + t]) for t in S.get_legs(0).t])) if S.size else np.array([])
        rec = d['U'] @ S @ d['V']
        return ('svd', _nz(sv, 9), tuple(d['U'].n), tuple(d['V'].n), d['U'].get_legs(-1).s), rec
    if op == 'svd_S':
        S = d['S']
        sv = np.sort(np.concatenate([np.asarray(S[t + t]) for t in S.get_legs(0).t])) if S.size else np.array([])
        return ('svd_S', _nz(sv, 9)), None
    if op == 'svd_trunc':
        S = d['S']
        sv = np.sort(np.concatenate([np.asarray(S[t + t]) for t in S.get_legs(0).t])) if S.size else np.array([])
        return ('svd_trunc', _nz(sv, 9)), None
    if op == 'qr':
        return ('qr', tuple(d['Q'].n), d['Q'].get_legs(-1).s), d['Q'] @ d['R']
    if op == 'eigh_gram':
        S = d['S']
        sv = np.sort(np.concatenate([np.asarray(S[t + t]).real for t in S.get_legs(0).t])) if S.size else np.array([])
        return ('eigh', _nz(sv, 8)), None
    v = complex(outs[0][1])
    return (op, round(v.real, 8), round(v.imag, 8)), None


def run_bfs(g, acc):
    sym = g['sym']
    L = lineages()
    cfgs = [GC.make(sym, policy=l[1], default_fusion=l[2], force_fusion=l[3]) for l in L]
    level = 0 if acc.tier == 'quick' else 1
    roots = [GT.build(c, sym, g['td'], acc.seed).x for c in cfgs]
    seen = {h64(P.canon(roots[0]))}
    frontier = collections.deque([(roots, [])])
    acc.states += 1
    while frontier:
        xs, hist = frontier.popleft()
        if len(hist) >= g['depth']:
            continue
        step = len(hist) + 1
        ref = xs[0]
        acts = [a for a in P.enabled(ref, level) if a['op'] in ACTION_OPS or a['op'] in TERMINAL_OPS]
        # default-mode fusion: the mode is chosen by the configuration
        acts += [dict(a, mode=None) for a in acts if a['op'] == 'fuse_legs' and a['mode'] == 'hard']
        for act in acts:
            acc.check_time()
            case = {'kind': 'bfs', 'sym': sym, 'td': g['td'], 'hist': hist, 'action': act}
            terminal = act['op'] in TERMINAL_OPS
            results, stats = [], []
            for x, l in zip(xs, L):
                xin = deviate(x, l[4], step)
                if terminal:
                    st, out = TC.call(terminal_obs, xin, act)
                else:
                    st, out = TC.call(P.apply, xin, act)
                stats.append(st)
                results.append(out)
            acc.transitions += 1
            acc.ev(None, False, (act['op'], stats[0]))
            acc.cnt['lineage_calls'] += len(L)
            if any(s == 'exc' for s in stats):
                i = stats.index('exc')
                acc.fail(dict(case, lineage=list(L[i])), f"{act} raised {results[i]} in lineage {L[i]} (history {hist})")
                continue
            if len(set(stats)) > 1:
                i = [s != stats[0] for s in stats].index(True)
                acc.fail(dict(case, lineage=list(L[i])),
                         f"{act}: outcome {stats[i]} in lineage {L[i]} but {stats[0]} in the reference configuration "
                         f"({results[i] if stats[i] != 'ok' else results[0]}) (history {hist})")
                continue
            if stats[0] == 'yerr':
                acc.cnt['rejected_by_contract'] += 1
                continue
            if terminal:
                o0 = results[0]
                obs0 = (o0[0], fully_unfuse(o0[1]) if o0[1] is not None else None)
                for i in range(1, len(L)):
                    oi = results[i]
                    if oi[0] != o0[0]:
                        acc.fail(dict(case, lineage=list(L[i])), f"{act}: {oi[0]} in lineage {L[i]} vs {o0[0]} (history {hist})")
                        break
                    if o0[1] is not None:
                        m = same_obs(observe(o0[1]), observe(oi[1]), exact=False)
                        if m:
                            acc.fail(dict(case, lineage=list(L[i])), f"{act}: reconstruction in lineage {L[i]}: {m} (history {hist})")
                            break
                continue
            labs = [lab for lab, _, _ in results[0]]
            for k, lab in enumerate(labs):
                ys = [r[k][1] for r in results]
                o0 = observe(ys[0])
                b0 = _bytes_noconfig(ys[0])
                bad = False
                for i in range(1, len(L)):
                    if _bytes_noconfig(ys[i]) == b0:
                        acc.cnt['identical_representation'] += 1
                        continue      # same structure and data as the reference: same observation
                    m = same_obs(o0, observe(ys[i]), exact=True)
                    if m:
                        acc.fail(dict(case, lineage=list(L[i])), f"{act} -> {lab}: lineage {L[i]} vs reference: {m} (history {hist})")
                        bad = True
                        break
                if bad or not isinstance(ys[0], yastn.Tensor):
                    continue
                key = h64(P.canon(ys[0]))
                if key not in seen:
                    seen.add(key)
                    acc.states += 1
                    if len(ys[0].get_blocks_charge()) >= 2:
                        acc.nontrivial.add(key)
                    if acc.states % 211 == 0:
                        acc.sample(dict(case, successor=lab))
                    frontier.append((ys, hist + [[act, lab]]))


# -------------------------------------------------------------------------------------------------
# (b) contract_with_unroll

def all_paths(n):
    """every sequence of pairwise contractions of n tensors (positions in the shrinking list, result appended last)"""
    if n == 1:
        return [[]]
    out = []
    for i, j in itertools.combinations(range(n), 2):
        for rest in all_paths(n - 1):
            out.append([(i, j)] + rest)
    return out


def split_intra(leg):
    """hand-built split: the first sector with D >= 2 is cut in two pieces, other sectors whole in the first slice"""
    SL = yastn.SlicedLeg
    t, D = list(leg.t), list(leg.D)
    k = next((i for i, d in enumerate(D) if d >= 2), None)
    if k is None:
        return None
    s1 = SL(t=tuple(t), D=tuple(D[:k] + [1] + D[k + 1:]),
            slices={tt: (slice(0, d) if i != k else slice(0, 1)) for i, (tt, d) in enumerate(zip(t, D))})
    s2 = SL(t=(t[k],), D=(D[k] - 1,), slices={t[k]: slice(1, D[k])})
    return [s1, s2]


def run_unroll(g, acc):
    sym = g['sym']
    cfg = GC.make(sym)
    tier = acc.tier
    nets = [n for n in NW.networks(3 if tier == 'quick' else 4, 3, 6 if tier == 'quick' else 8, max_open=3, max_selfloops=0)
            if len(n['ranks']) >= 2]
    k = -1
    for net in nets:
        k += 1
        if k % g['parts'] != g['part']:
            continue
        nt = len(net['ranks'])
        od = NC.operand_descriptors(sym, net, [0] * nt, alt=0, ncfg=1, lazy=True, ms_cap=3)
        if od is None:
            continue
        tds, _, _ = od
        built = [GT.build(cfg, sym, td, acc.seed) for td in tds]
        ts = [b.x for b in built]
        inds, opens = NW.inds_of(net)
        npairs = len(net['pairs'])
        for strlab in (False, True):
            def lab(i):
                return (('c%d' % i) if i > 0 else ('o%d' % -i)) if strlab else (i if i > 0 else 100 - i)
            args = []
            for t, ii in zip(ts, inds):
                args += [t, tuple(lab(i) for i in ii)]
            out_labels = tuple(lab(-p) for p in range(len(opens)))
            args.append(out_labels)
            st, ref = TC.call(lambda: yastn.ncon(ts, inds))
            if st != 'ok':
                continue
            o_ref = observe(ref)
            paths = [('all', p) for p in all_paths(nt)]
            for optz in (None, 'greedy', 'optimal'):
                paths.append(('opt:%s' % optz, optz))
            labels = [lab(i) for i in range(1, npairs + 1)] + [lab(-p) for p in range(len(opens))]
            unrolls = [None]
            for l1 in labels:
                for spec in ('sliced', 1, 2, 3, 'intra'):
                    unrolls.append({l1: spec})
            if tier != 'quick' or not strlab:
                for l1, l2 in itertools.combinations(labels, 2):
                    unrolls.append({l1: 'sliced', l2: 2})
            for pname, path in paths:
                for un in unrolls:
                    if tier == 'quick' and strlab and pname == 'all' and un is not None and list(un.values())[0] not in ('sliced', 2):
                        continue
                    acc.check_time()
                    case = {'kind': 'unroll', 'sym': sym, 'net': net, 'strlab': strlab, 'path': [pname, path if pname == 'all' else None],
                            'unroll': None if un is None else [[k_, v] for k_, v in un.items()]}
                    st, msg = unroll_case(case, args, ts, inds, path, pname, un, o_ref, cfg)
                    if st == 'skip':
                        continue
                    acc.evaluations += 1
                    acc.transitions += 1
                    acc.nontrivial.add(h64(repr(case)))
                    acc.cnt['unroll_' + st] += 1
                    if st == 'viol':
                        acc.fail(case, msg)
                    elif acc.evaluations % 3001 == 0:
                        acc.sample(case)


def _resolve_unroll(un, args):
    if un is None:
        return None
    out = {}
    for lab_, spec in un.items():
        leg = None
        for t, ig in zip(args[0:-1:2], args[1:-1:2]):
            if lab_ in ig:
                leg = t.get_legs(list(ig).index(lab_))
                break
        if leg is None:
            return 'skip'
        if len(leg.t) == 0:
            return 'skip'        # unrolling a leg of an operand without blocks: nothing to slice
        if spec == 'sliced':
            out[lab_] = yastn.make_sliced_legs(leg)
        elif spec == 'intra':
            sl = split_intra(leg)
            if sl is None:
                return 'skip'
            out[lab_] = sl
        else:
            out[lab_] = spec
    return out


def unroll_case(case, args, ts, inds, path, pname, un, o_ref, cfg):
    unr = _resolve_unroll(un, args)
    if unr == 'skip':
        return 'skip', None
    un_snapshot = repr(unr)
    if pname != 'all':
        kw = {} if path is None else {'optimizer': path}
        st, pp = TC.call(lambda: yastn.get_contraction_path(*args, unroll=unr, **kw))
        if st != 'ok':
            if 'optimizer' in str(pp) or 'unexpected keyword' in str(pp):
                return 'skip', None
            return 'notaccepted', None     # the quantifier ranges over specifications ACCEPTED by contract_with_unroll
        path = pp[0]
    st, res = TC.call(lambda: yastn.contract_with_unroll(*args, unroll=unr, optimize=path))
    if st != 'ok':
        return 'notaccepted', None
    if not isinstance(res, yastn.Tensor):
        return 'viol', f"contract_with_unroll(path={path}, unroll={un}) returned {type(res).__name__} instead of a Tensor"
    m = same_obs(o_ref, observe(res), exact=True)
    if m:
        return 'viol', f"contract_with_unroll(path={path}, unroll={un}) differs from ncon: {m}"
    return 'ok', None


def replay(case):
    acc = _Mini()
    if case['kind'] == 'bfs':
        sym = case['sym']
        L = lineages()
        cfgs = [GC.make(sym, policy=l[1], default_fusion=l[2], force_fusion=l[3]) for l in L]
        xs = [GT.build(c, sym, case['td'], case.get('seed', 0)).x for c in cfgs]
        for step, (act, lab) in enumerate(case['hist'], start=1):
            xs = [dict((l_, y) for l_, y, _ in P.apply(deviate(x, l[4], step), act))[lab] for x, l in zip(xs, L)]
        g = {'sym': sym, 'td': case['td'], 'depth': len(case['hist']) + 1}
        # re-run the single transition
        act = case['action']
        step = len(case['hist']) + 1
        terminal = act['op'] in TERMINAL_OPS
        outs = []
        for x, l in zip(xs, L):
            xin = deviate(x, l[4], step)
            outs.append(TC.call(terminal_obs, xin, act) if terminal else TC.call(P.apply, xin, act))
        stats = [o[0] for o in outs]
        if any(s == 'exc' for s in stats):
            return [f"{act}: {outs[stats.index('exc')][1]}"]
        if len(set(stats)) > 1:
            return [f"{act}: outcomes differ between lineages: {collections.Counter(stats)}"]
        if stats[0] != 'ok':
            return []
        msgs = []
        if terminal:
            o0 = outs[0][1]
            for i in range(1, len(L)):
                oi = outs[i][1]
                if oi[0] != o0[0]:
                    msgs.append(f"{act}: {oi[0]} in lineage {L[i]} vs {o0[0]}")
                elif o0[1] is not None:
                    m = same_obs(observe(o0[1]), observe(oi[1]), exact=False)
                    if m:
                        msgs.append(f"{act}: lineage {L[i]}: {m}")
            return msgs[:3]
        for k, (lab, _, _) in enumerate(outs[0][1]):
            o0 = observe(outs[0][1][k][1])
            for i in range(1, len(L)):
                m = same_obs(o0, observe(outs[i][1][k][1]), exact=True)
                if m:
                    msgs.append(f"{act} -> {lab}: lineage {L[i]}: {m}")
        return msgs[:3]
    g = {'sym': case['sym'], 'part': 0, 'parts': 1}
    run_unroll(g, acc)
    return [v['msg'] for v in acc.violations if v['case'].get('net') == case['net'] and v['case'].get('unroll') == case['unroll']
            and v['case'].get('path') == case['path'] and v['case'].get('strlab') == case['strlab']][:3]


class _Mini:
    def __init__(self):
        self.violations, self.cnt = [], collections.Counter()
        self.evaluations = self.states = self.transitions = 0
        self.tier, self.seed = 'quick', 0
        self.nontrivial, self.outcomes = set(), set()

    def ev(self, *a, **k):
        pass

    def fail(self, case, msg, key=None):
        self.violations.append({'case': case, 'msg': msg})

    def sample(self, c):
        pass

    def check_time(self):
        pass


def finalize(summary, tier):
    errs = []
    c = summary['cnt']
    if summary['states'] < 2000 or c.get('unroll_ok', 0) < 1000:
        errs.append(f"vacuity: states={summary['states']} unroll_ok={c.get('unroll_ok')}")
    return errs


def coverage_extra(summary, tier):
    return {'lineages_per_state': len(lineages()), 'lineages': [list(l) for l in lineages()]}
