"""
C16 - Metadata caches are transparent.

Exhaustive enumeration of histories (depth 3 quick / 4 thorough) over an alphabet of operation events on COLLIDING
families (tensors with identical struct/slices but different symmetry group, fermionic flags or fusion history) and
cache events (clear_cache, set_cache_maxsize(0|1|2|1024)).  Every lru table in every yastn namespace that binds it is
instrumented from the harness:
 (1) every operation result in every history is bit-identical to the cold reference of the same call;
 (2) on every cache hit the undecorated function is re-run and deep-compared with the cached value;
 (3) the digest of a cached value at insertion equals its digest at every later hit and at the end of the history;
 (4) hit/miss counters agree with a dictionary LRU model (models/lru).
"""
import collections
import functools
import hashlib
import pickle
import itertools
import sys

import numpy as np
import yastn

from vmc.engine.runner import h64
from vmc.gen import programs as P
from vmc.models import lru as LRU

PROPERTY_ID = 'C16'
LEVEL = 'model_checking'
RULE = ("exhaustive enumeration of event histories; state = contents (ordered keys) and maxsize of every lru table in every "
        "namespace binding, from the LRU model fed by the instrumented calls; one transition = one event; distinct states by hash; "
        "non-trivial = history in which at least one cache hit occurred")
ASSUMPTIONS = ["functools.lru_cache semantics", "cached functions take no input other than their arguments"]
BUDGET = {'quick': 150, 'thorough': 1200}


# ---------------------------------------------------------------------------------------------
# instrumentation

def _norm(v):
    """same object with numbers that compare equal made identical (an intermediate struct of a full contraction carries the
    charge 0.0 where another path has 0: equal as cache keys and as values, not an observable difference)"""
    if isinstance(v, (bool, np.bool_)):
        return bool(v)
    if isinstance(v, (float, np.floating)):
        return int(v) if float(v).is_integer() else float(v)
    if isinstance(v, (int, np.integer)):
        return int(v)
    if isinstance(v, tuple):
        items = [_norm(x) for x in v]
        return type(v)(*items) if hasattr(v, '_fields') else tuple(items)
    if isinstance(v, list):
        return [_norm(x) for x in v]
    if isinstance(v, dict):
        return {_norm(k): _norm(x) for k, x in v.items()}
    if isinstance(v, np.ndarray):
        if v.dtype.kind == 'f' and v.size and np.all(np.mod(v, 1) == 0):
            return v.astype(np.int64)
        if v.dtype.kind in 'iu':
            return v.astype(np.int64)
        return v
    return v


def digest(v):
    """digest of a cached value (nested tuples/lists/dicts/ndarrays/namedtuples/scalars) via its pickle; values containing
    floats or numpy objects are first brought to the normal form above (fast path: pure int/str/tuple metadata)"""
    try:
        p = pickle.dumps(v, protocol=4)
        if b'G' in p or b'numpy' in p:
            p = pickle.dumps(_norm(v), protocol=4)
        return hashlib.blake2b(p, digest_size=16).digest()
    except Exception:
        return repr(v)


class Table:
    """instrumented binding of one lru table in one module namespace"""

    def __init__(self, mod, name, mon):
        self.mod, self.name, self.mon = mod, name, mon
        self.key = f"{mod.__name__.replace('yastn.tensor.', '')}.{name}"
        self.inner = None
        self.model = None

    def install(self):
        cur = getattr(self.mod, self.name)
        if getattr(cur, '_verif_outer', False):
            inner = cur._verif_inner
        else:
            inner = cur                      # a plain functools lru object (initial, or rebuilt by set_cache_maxsize)
        base = inner.__wrapped__
        while getattr(base, '_verif_rec', False):
            base = base._verif_base
        maxsize = inner.cache_parameters()['maxsize']
        tbl = self

        def rec_base(*a, **k):
            v = base(*a, **k)
            tbl.mon.on_miss(tbl, a, k, v)
            return v
        rec_base._verif_rec = True
        rec_base._verif_base = base
        new_inner = functools.lru_cache(maxsize)(rec_base)
        self.inner = new_inner
        self.base = base
        self.model = LRU.Model(maxsize)

        def outer(*a, **k):
            hit = tbl.model.access(LRU.make_key(a, k))
            v = new_inner(*a, **k)
            tbl.mon.on_call(tbl, a, k, v, hit)
            return v
        outer._verif_outer = True
        outer._verif_inner = new_inner
        outer.__wrapped__ = rec_base
        outer.cache_clear = lambda: (new_inner.cache_clear(), tbl.model.clear())
        outer.cache_info = new_inner.cache_info
        outer.cache_parameters = new_inner.cache_parameters
        setattr(self.mod, self.name, outer)

    def uninstall(self):
        cur = getattr(self.mod, self.name)
        if getattr(cur, '_verif_outer', False):
            setattr(self.mod, self.name, functools.lru_cache(cur.cache_parameters()['maxsize'])(self.base))


class Monitor:
    def __init__(self):
        self.errors = []
        self.hits = 0
        self.misses = 0
        self.ins = {}

    def reset(self):
        self.errors, self.hits, self.misses, self.ins = [], 0, 0, {}

    def on_miss(self, tbl, a, k, v):
        self.misses += 1
        try:
            self.ins[(tbl.key, LRU.make_key(a, k))] = digest(v)
        except TypeError:
            pass

    def on_call(self, tbl, a, k, v, model_hit):
        key = (tbl.key, LRU.make_key(a, k))
        if not model_hit:
            return
        self.hits += 1
        d_now = digest(v)
        d_ins = self.ins.get(key)
        if d_ins is not None and d_ins != d_now:
            self.errors.append(f"cached value of {tbl.key} was altered after insertion (args {str(a)[:200]})")
        fresh = tbl.base(*a, **k)
        if digest(fresh) != d_now:
            self.errors.append(f"cache hit of {tbl.key} returns a value different from recomputation (args {str(a)[:200]})")


def discover(mon):
    """every (module, name) in yastn namespaces bound to an lru-cached function"""
    tables = []
    for mname, mod in sorted(sys.modules.items()):
        if not mname.startswith('yastn') or mod is None:
            continue
        for name, obj in sorted(vars(mod).items()):
            if callable(obj) and hasattr(obj, 'cache_info') and hasattr(obj, '__wrapped__') and hasattr(obj, 'cache_parameters'):
                tables.append(Table(mod, name, mon))
    return tables


# ---------------------------------------------------------------------------------------------
# event alphabet

def fam_config(fam, policy='fuse_to_matrix'):
    from vmc.gen import configs as GC
    sym, ferm = {'Z2': ('Z2', False), 'U1': ('U1', False), 'Z3': ('Z3', False), 'U1f': ('U1', True), 'Z2f': ('Z2', True),
                 'U1xU1': ('U1xU1', False), 'Z2xU1': ('Z2xU1', False), 'U1xU1f': ('U1xU1', (True, False))}[fam]
    return GC.make(sym, fermionic=ferm, policy=policy)


def fam_tensors(fam, policy='fuse_to_matrix'):
    """tensors with the SAME struct and slices for every family of equal NSYM: charges {0,1} (or {(0,0),(1,1)})"""
    cfg = fam_config(fam, policy)
    ns = cfg.sym.NSYM
    c0, c1 = ((0,), (1,)) if ns == 1 else ((0, 0), (1, 1))
    rng = np.random.default_rng(7)

    def T(sig, blocks, isdiag=False):
        x = yastn.Tensor(config=cfg, s=sig, isdiag=isdiag)
        for ts, Ds in blocks:
            flat = tuple(v for t in ts for v in t)
            if isdiag:
                x.set_block(ts=ts[0], Ds=Ds[0], val=rng.integers(1, 4, size=Ds[0]).astype(float))
            else:
                x.set_block(ts=flat, Ds=Ds, val=rng.integers(-3, 4, size=Ds).astype(float))
        return x
    a = T((1, -1), [((c0, c0), (1, 1)), ((c1, c1), (2, 2))])
    b = T((1, -1), [((c0, c0), (1, 1)), ((c1, c1), (2, 2))])
    b1 = T((1, -1), [((c1, c1), (2, 2))])
    d = T((1, -1), [((c0, c0), (1, 1)), ((c1, c1), (2, 2))], isdiag=True)
    # rank 3 with s=(1,1,-1): allowed blocks differ between the groups, we set only those allowed in ALL groups
    t3 = T((1, 1, -1), [((c0, c0, c0), (1, 1, 1)), ((c0, c1, c1), (1, 2, 2)), ((c1, c0, c1), (2, 1, 2))])
    t3b = T((1, 1, -1), [((c0, c0, c0), (1, 1, 1)), ((c1, c0, c1), (2, 1, 2))])
    # same fusion tree, different fusion history, and a shared effective charge (c1) whose internal sub-sectors are disjoint:
    # (c1, c0) in p3 against (c0, c1) in q3 - the intersection mask of that charge is entirely False
    p3 = T((1, 1, -1), [((c0, c0, c0), (1, 1, 1)), ((c1, c0, c1), (1, 1, 1))])
    q3 = T((1, 1, -1), [((c0, c0, c0), (1, 1, 1)), ((c0, c1, c1), (1, 1, 1))])
    return cfg, dict(a=a, b=b, b1=b1, d=d, t3=t3, t3b=t3b, p3=p3, q3=q3)


def make_events(fams, tier):
    """list of (name, thunk) ; thunk() -> list of result objects (tensors / numbers)"""
    ev = []
    for fam in fams:
        for pol in ('fuse_to_matrix', 'fuse_contracted', 'no_fusion'):
            cfg, X = fam_tensors(fam, pol)
            ev.append((f'tensordot[{pol}]({fam})', (lambda X=X: [yastn.tensordot(X['t3'], X['a'], axes=(2, 0)),
                                                                   yastn.tensordot(X['a'], X['b1'], axes=(1, 0))])))
        cfg, X = fam_tensors(fam)
        ev.append((f'add({fam})', lambda X=X: [X['a'] + X['b1'], X['t3'] - X['t3b']]))
        ev.append((f'trace({fam})', lambda X=X: [X['a'].trace(axes=(0, 1)), X['t3'].trace(axes=(1, 2))]))
        ev.append((f'vdot({fam})', lambda X=X: [yastn.vdot(X['a'], X['b1']), yastn.vdot(X['t3'], X['t3b'])]))
        ev.append((f'broadcast_mask({fam})', lambda X=X: [X['d'].broadcast(X['t3'], axes=2), (X['d'] > 1).apply_mask(X['a'], axes=0)]))
        ev.append((f'swap_gate({fam})', lambda X=X: [X['t3'].swap_gate(axes=(0, 1)), X['t3'].swap_gate(axes=(0, (1, 2))),
                                                      X['a'].swap_gate(axes=0, charge=X['t3'].get_legs(0).t[-1])]))
        ev.append((f'fuse_unfuse({fam})', lambda X=X: _fuse_unfuse(X)))
        ev.append((f'svd({fam})', lambda X=X: _svd_obs(X)))
        ev.append((f'ncon_swap({fam})', lambda X=X: [yastn.ncon([X['t3'], X['a'], X['b']], [[1, -1, 2], [2, -2], [-0, 1]], swap=[(1, -1)])]))
        ev.append((f'fused_mismatch({fam})', lambda X=X: _fused_mismatch(X)))
        ev.append((f'fused_disjoint({fam})', lambda X=X: _fused_disjoint(X)))
    cache_events = [('clear_cache', lambda: yastn.clear_cache() or []),
                    ('maxsize(0)', lambda: yastn.set_cache_maxsize(0) or []),
                    ('maxsize(1)', lambda: yastn.set_cache_maxsize(1) or []),
                    ('maxsize(2)', lambda: yastn.set_cache_maxsize(2) or []),
                    ('maxsize(1024)', lambda: yastn.set_cache_maxsize(1024) or [])]
    return ev, cache_events


def _fuse_unfuse(X):
    f = X['t3'].fuse_legs(axes=((0, 1), 2), mode='hard')
    g = X['t3'].fuse_legs(axes=(0, (1, 2)), mode='hard')
    return [f, g, f.unfuse_legs(axes=0), g.unfuse_legs(axes=1), X['t3'].fuse_legs(axes=((0, 1), 2), mode='meta')]


def _svd_obs(X):
    U, S, V = yastn.svd(X['t3'], axes=((0, 1), 2))
    Q, R = yastn.qr(X['t3'], axes=(0, (1, 2)))
    return [S, U @ S @ V, Q @ R]


def _fused_mismatch(X):
    f = X['t3'].fuse_legs(axes=((0, 1), 2), mode='hard')
    g = X['t3b'].fuse_legs(axes=((0, 1), 2), mode='hard')
    out = [f + g, yastn.vdot(f, g), yastn.tensordot(f, g, axes=(0, 0), conj=(0, 1))]
    out.append(f.to_numpy(legs={0: g.get_legs(0)}))
    return out


def _fused_disjoint(X):
    f = X['p3'].fuse_legs(axes=((0, 1), 2), mode='hard')
    g = X['q3'].fuse_legs(axes=((0, 1), 2), mode='hard')
    return [yastn.tensordot(f, g, axes=(0, 0), conj=(0, 1)), yastn.vdot(f, g)]


def obs_bytes(res):
    out = []
    for r in res:
        if isinstance(r, yastn.Tensor):
            out.append(P.canon(r))
        elif isinstance(r, np.ndarray):
            out.append(r.tobytes())
        else:
            out.append(repr(complex(r)).encode())
    return b'|'.join(out)


# ---------------------------------------------------------------------------------------------

FAMS_QUICK = ['Z2', 'U1', 'Z3', 'U1f']
FAMS_THOROUGH = ['Z2', 'U1', 'Z3', 'U1f', 'Z2f', 'U1xU1', 'Z2xU1', 'U1xU1f']


def groups(tier, seed):
    fams = FAMS_QUICK if tier == 'quick' else FAMS_THOROUGH
    ev, cev = make_events(fams, tier)
    n = len(ev) + len(cev)
    depth = 3
    gs = []
    # one group per first event (prefix sharding); deeper level for thorough
    for i in range(n):
        gs.append({'first': i, 'depth': depth, 'level': 1})
    if tier != 'quick':
        for i in range(n):
            for j in range(0, n, 1):
                gs.append({'first': i, 'second': j, 'depth': 4, 'level': 2})
    return gs


_STATE = {}


def setup(tier):
    if _STATE.get('tier') == tier:
        return _STATE
    yastn.set_cache_maxsize(1024)
    yastn.clear_cache()
    fams = FAMS_QUICK if tier == 'quick' else FAMS_THOROUGH
    ev, cev = make_events(fams, tier)
    mon = Monitor()
    # cold references: all caches disabled
    yastn.set_cache_maxsize(0)
    cold = [obs_bytes(th()) for _, th in ev]
    cold2 = [obs_bytes(th()) for _, th in ev]
    yastn.set_cache_maxsize(1024)
    yastn.clear_cache()
    tables = discover(mon)
    _STATE.update(tier=tier, ev=ev, cev=cev, mon=mon, cold=cold, tables=tables, nondet=[i for i in range(len(ev)) if cold[i] != cold2[i]])
    return _STATE


def reset_all(S, force=False):
    """fresh process-like state: default sizes, empty tables, instrumentation installed on every binding"""
    if not force and S.get('clean_sizes') and all(getattr(getattr(t.mod, t.name), '_verif_outer', False) for t in S['tables']):
        for t in S['tables']:          # no resize happened since the last full reset: emptying the tables is enough
            t.inner.cache_clear()
            t.model.clear()
        S['mon'].reset()
        return
    for t in S['tables']:
        t.uninstall()
    yastn.set_cache_maxsize(1024)
    for t in S['tables']:
        cur = getattr(t.mod, t.name)
        if hasattr(cur, 'cache_clear'):
            cur.cache_clear()
    # bindings in other namespaces may hold older lru objects: rebuild every binding at the default size
    for t in S['tables']:
        base = getattr(t, 'base', None) or getattr(t.mod, t.name).__wrapped__
        while getattr(base, '_verif_rec', False):
            base = base._verif_base
        t.base = base
        setattr(t.mod, t.name, functools.lru_cache(1024)(base))
    for t in S['tables']:
        t.install()
    S['mon'].reset()
    S['clean_sizes'] = True


def run_history(S, hist):
    """returns (list of messages, state hash, hits)"""
    reset_all(S)
    ev, cev, mon, cold = S['ev'], S['cev'], S['mon'], S['cold']
    msgs = []
    ne = len(ev)
    for step, e in enumerate(hist):
        if e < ne:
            name, th = ev[e]
            try:
                got = obs_bytes(th())
            except Exception as ex:
                msgs.append(f"event {name} raised {type(ex).__name__}: {ex} at step {step} of history {names(S, hist)}")
                break
            if got != cold[e] and e not in S['nondet']:
                msgs.append(f"result of {name} at step {step} differs from its cold (cache-free) reference; history {names(S, hist)}")
        else:
            name, th = cev[e - ne]
            th()
            if name != 'clear_cache':
                S['clean_sizes'] = False
            for t in S['tables']:      # set_cache_maxsize rebuilds tables from __wrapped__: re-instrument, keep model in sync
                cur = getattr(t.mod, t.name)
                if not getattr(cur, '_verif_outer', False):
                    t.install()
                elif name == 'clear_cache':
                    pass
        if mon.errors:
            msgs.extend(f"{m}; history {names(S, hist)}" for m in mon.errors[:2])
            break
    # (3) end-of-history digests: every value still cached must be unaltered
    for t in S['tables']:
        for key in t.model.keys():
            d_ins = mon.ins.get((t.key, key))
            if d_ins is None:
                continue
            a, k = LRU.split_key(key)
            try:
                v = t.inner(*a, **k)
            except Exception:
                continue
            if digest(v) != d_ins:
                msgs.append(f"cached value of {t.key} altered after insertion (end of history {names(S, hist)})")
                break
    # (4) counters vs model
    for t in S['tables']:
        ci = t.inner.cache_info()
        if ci.currsize != len(t.model.keys()) and t.inner.cache_parameters()['maxsize'] != 0:
            msgs.append(f"{t.key}: lru currsize {ci.currsize} but the LRU model holds {len(t.model.keys())} entries; history {names(S, hist)}")
            break
    st = h64(repr(sorted((t.key, t.inner.cache_parameters()['maxsize'], tuple(h64(repr(k)) for k in t.model.keys())) for t in S['tables'])))
    return msgs, st, mon.hits


def names(S, hist):
    ne = len(S['ev'])
    return [S['ev'][e][0] if e < ne else S['cev'][e - ne][0] for e in hist]


def run_group(g, acc):
    S = setup(acc.tier)
    n = len(S['ev']) + len(S['cev'])
    if S['nondet']:
        acc.cnt['nondeterministic_events_excluded'] += len(S['nondet'])
    prefix = [g['first']] + ([g['second']] if 'second' in g else [])
    depth = g['depth']
    seen = set()

    def rec(hist):
        acc.check_time()
        msgs, st, hits = run_history(S, hist)
        acc.transitions += 1
        acc.ev(tuple(hist), hits > 0, (len(hist), bool(msgs)))
        acc.cnt['histories_depth%d' % len(hist)] += 1
        acc.cnt['cache_hits_observed'] += hits
        if st not in seen:
            seen.add(st)
            acc.states += 1
        if msgs:
            acc.fail({'hist': hist, 'names': names(S, hist)}, msgs[0])
            return
        if acc.transitions % 1499 == 0:
            acc.sample({'hist': hist, 'names': names(S, hist)})
        if len(hist) < depth:
            for e in range(n):
                rec(hist + [e])
    try:
        rec(prefix)
    finally:
        reset_all(S, force=True)
        for t in S['tables']:
            t.uninstall()
        yastn.set_cache_maxsize(1024)


def replay(case):
    S = setup('quick')
    if len(S['ev']) + len(S['cev']) <= max(case['hist']):
        S = setup('thorough')
    msgs, _, _ = run_history(S, case['hist'])
    for t in S['tables']:
        t.uninstall()
    return msgs


def finalize(summary, tier):
    errs = []
    c = summary['cnt']
    if c.get('cache_hits_observed', 0) < 1000:
        errs.append(f"vacuity: only {c.get('cache_hits_observed', 0)} cache hits observed")
    if summary['states'] < 100:
        errs.append(f"vacuity: only {summary['states']} cache states")
    return errs


def coverage_extra(summary, tier):
    S = setup(tier)
    return {'tables_instrumented': sorted(t.key for t in S['tables']), 'events': [n for n, _ in S['ev']] + [n for n, _ in S['cev']]}
