"""
C01 - Tensor algebra agrees with dense linear algebra.
Exhaustive product enumeration; oracle = NumPy on ground-truth dense arrays (integer data, bitwise).
"""
import itertools

import numpy as np

from vmc.gen import configs as GC, legs as GL, tensors as GT
from vmc.models import groups as G, dense as MD
from . import _tcommon as TC
from . import c01_unary as U
from . import c01_binary as B
from . import c01_ncon as N
from . import c01_fused as F

PROPERTY_ID = 'C01'
LEVEL = 'exploration'
RULE = ("product enumeration over (symmetry, dtype, operand descriptors [signature, leg-menu entries, charge, "
        "dropped blocks, lazy variant], operation, arguments); one case = one operation call compared with NumPy on "
        "the ground-truth dense operands; non-trivial = operand(s) have >=2 stored blocks in total and the call is "
        "not a contract rejection; distinct by hash of the full case descriptor")
ASSUMPTIONS = ["NumPy dense linear algebra is the reference", "integer block data in [-3,3] (Gaussian integers for "
               "complex) make exact operations bitwise comparable", "NumPy backend only"]
BUDGET = {'quick': 260, 'thorough': 1500}

DTYPES = ['float64', 'complex128']
ELEMENTWISE = {'neg', 'abs', 'real', 'imag', 'sqrt_abs', 'pow', 'exp', 'rsqrt', 'reciprocal', 'mul', 'rmul', 'truediv',
               'cmp', 'copy', 'clone', 'shallow_copy', 'detach', 'to_same', 'norm', 'conj_blocks', 'zero_then_rzb'}


def pool(sym, tier, ranks, lazy_level=0, with_mat=True):
    """tensor descriptors (all lazy variants)"""
    ms = GL.msize(sym, 2 if tier == 'quick' else 3)
    ncharges = min(2, len(GL.CHARGES[sym]))
    for r in ranks:
        mlist = range(ms) if r <= 3 else range(min(ms, 2))
        for sig in itertools.product((1, -1), repeat=r):
            for m in itertools.product(mlist, repeat=r):
                for n in range(ncharges):
                    drops = [None, [0]] + ([[-1]] if (tier != 'quick' or r <= 2) else [])
                    for drop in drops:
                        td = {'s': list(sig), 'm': list(m), 'n': n, 'drop': drop}
                        for var in GT.variants(r, lazy_level, with_mat):
                            yield dict(td, var=var)
    # diagonal tensors
    for sig in ((1, -1), (-1, 1)):
        for m in range(ms):
            for drop in (None, [0]):
                for var in (['fresh'], ['lazy', [1, 0]]):
                    yield {'s': list(sig), 'm': [m, m], 'n': 0, 'drop': drop, 'diag': True, 'var': var}


def pool4_reduced(sym):
    """quick tier: a small complete family of rank-4 tensors (two free legs remain after a trace)"""
    ms = GL.msize(sym, 2)
    n1 = min(1, len(GL.CHARGES[sym]) - 1)
    for sig in ((1, -1, 1, -1), (1, 1, -1, -1), (-1, 1, 1, -1)):
        for m in ((0, 0, 0, 0), tuple(i % ms for i in range(4)), (0, (1 % ms), (1 % ms), 0)):
            for var in GT.variants(4, 1, with_mat=True):
                yield {'s': list(sig), 'm': list(m), 'n': n1, 'drop': None, 'var': var}


def groups(tier, seed):
    gs = []
    for sym in GC.SYMS:
        for dt in DTYPES:
            base = {'sym': sym, 'dtype': dt}
            for r in ([0, 1, 2, 3] if tier == 'quick' else [0, 1, 2, 3, 4]):
                nparts = {0: 1, 1: 1, 2: 1, 3: 4, 4: 16}[r]
                for part in range(nparts):
                    gs.append(dict(base, sec='unary', rank=r, part=part, parts=nparts, level=1 if r <= 3 else 2))
            if tier == 'quick':
                gs.append(dict(base, sec='unary', rank=4, part=0, parts=1, level=1, reduced=True))
            gs.extend(B.groups(base, tier))
            gs.extend(N.groups(base, tier))
            gs.extend(F.groups(base, tier))
    return gs


def run_group(g, acc):
    cfg = GC.make(g['sym'], dtype=g['dtype'])
    if g['sec'] == 'unary':
        return run_unary(g, cfg, acc)
    if g['sec'].startswith('b_'):
        return B.run_group(g, cfg, acc)
    if g['sec'].startswith('n_'):
        return N.run_group(g, cfg, acc)
    if g['sec'].startswith('f_'):
        return F.run_group(g, cfg, acc)
    raise KeyError(g['sec'])


def run_unary(g, cfg, acc):
    sym, tier = g['sym'], acc.tier
    cplx = g['dtype'].startswith('complex')
    k = -1
    lazy_level = 0 if tier == 'quick' else 1
    src = pool(sym, tier, [g['rank']], lazy_level) if not g.get('reduced') else pool4_reduced(sym)
    for td in src:
        if (g['rank'] != 2) and td.get('diag'):
            continue
        if tier == 'quick' and g['rank'] >= 3 and td['n'] == 0 and td['var'][0] != 'fresh':
            continue   # quick: lazy variants of rank-3 tensors only with non-zero charge
        k += 1
        if k % g['parts'] != g['part']:
            continue
        b = GT.build(cfg, sym, td, acc.seed)
        for op, args in U.catalogue(len(td['s']), bool(td.get('diag')), cplx, tier != 'quick'):
            if tier == 'quick' and g['rank'] >= 3 and op in ELEMENTWISE:
                continue   # element-wise operations act on the 1-D storage only: enumerated for ranks <= 2 in quick
            acc.check_time()
            case = {'sec': 'unary', 'sym': sym, 'dtype': g['dtype'], 'td': td, 'op': op, 'args': args}
            try:
                st, msg = U.run_op(b, sym, op, args)
            except MD.ShadowError as e:
                st, msg = 'viol', f"{op}{args}: {e}"
            acc.ev((sym, g['dtype'], repr(td), op, repr(args)), b.nblocks >= 2 and st == 'ok', (op, st))
            acc.cnt['unary_' + st] += 1
            if st == 'viol':
                acc.fail(case, msg, key=finding_key(case, msg))
            elif acc.evaluations % 5003 == 0:
                acc.sample(case)


def finding_key(case, msg):
    return None


def replay(case):
    cfg = GC.make(case['sym'], dtype=case['dtype'])
    if case.get('sec') == 'unary':
        b = GT.build(cfg, case['sym'], case['td'], case.get('seed', 0))
        try:
            st, msg = U.run_op(b, case['sym'], case['op'], case['args'])
        except MD.ShadowError as e:
            st, msg = 'viol', str(e)
        return [msg] if st == 'viol' else []
    if case.get('sec', '').startswith('b_'):
        return B.replay(case, cfg)
    if case.get('sec', '').startswith('n_'):
        return N.replay(case, cfg)
    if case.get('sec', '').startswith('f_'):
        return F.replay(case, cfg)
    return [f"unknown section {case.get('sec')}"]


def finalize(summary, tier):
    errs = []
    c = summary['cnt']
    if c.get('unary_rejected', 0) < 100:
        errs.append('vacuity: hardly any contract rejections observed in unary section')
    if summary['outcomes'] < 50:
        errs.append(f"vacuity: only {summary['outcomes']} distinct outcomes")
    return errs
