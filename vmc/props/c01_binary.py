"""Binary operations of C01: tensordot/@, vdot, add/sub/add(), broadcast, apply_mask, diagonal operands."""
import itertools

import numpy as np
import yastn

from vmc.gen import legs as GL, tensors as GT
from vmc.models import dense as MD, groups as G
from . import _tcommon as TC

CONJS = [(0, 0), (0, 1), (1, 0), (1, 1)]


def groups(base, tier):
    gs = []
    combos = [(ra, rb, k) for ra in (1, 2, 3) for rb in (1, 2, 3) for k in range(0, min(2, ra, rb) + 1)
              if not (k == 0 and ra + rb > 4)]
    if tier != 'quick':
        combos += [(4, 2, 1), (4, 2, 2), (2, 4, 2), (4, 3, 2), (4, 4, 2), (3, 3, 3), (4, 4, 3)]
    for (ra, rb, k) in combos:
        big = ra + rb >= 6
        if not (tier == 'quick' and big and k == 2):
            gs.append(dict(base, sec='b_tdot_struct', ra=ra, rb=rb, k=k, level=1 if not big else 2))
        if not (tier == 'quick' and big):
            gs.append(dict(base, sec='b_tdot_sector', ra=ra, rb=rb, k=k, level=1 if ra + rb <= 5 else 2))
    for r in (0, 1, 2, 3):
        gs.append(dict(base, sec='b_linear', rank=r, level=1))
    gs.append(dict(base, sec='b_diagops', level=1))
    if base['dtype'] == 'float64':
        gs.append(dict(base, sec='b_mixed', level=1))
    return gs


def cases_mixed(g, tier):
    """mixed dtypes: one operand real, the other complex (both assignments) for every binary operation family"""
    srcs = [cases_diagops(g, tier),
            cases_linear(dict(g, rank=1), tier), cases_linear(dict(g, rank=2), tier),
            cases_tdot_struct(dict(g, ra=2, rb=2, k=1), tier), cases_tdot_struct(dict(g, ra=2, rb=1, k=1), tier),
            cases_tdot_struct(dict(g, ra=1, rb=2, k=0), tier)]
    for src in srcs:
        for i, case in enumerate(src):
            if case.get('expect') == 'err':
                continue
            va, vb = case['a'].get('var', ['fresh']), case['b'].get('var', ['fresh'])
            if tier == 'quick' and (va[0] == 'mat' or vb[0] == 'mat' or i % 3):
                continue
            for who in ('a', 'b'):
                c = dict(case)
                c[who] = dict(case[who], dtype='complex128')
                yield c


def run_group(g, cfg, acc):
    sym = g['sym']
    gen = {'b_tdot_struct': cases_tdot_struct, 'b_tdot_sector': cases_tdot_sector, 'b_linear': cases_linear,
           'b_diagops': cases_diagops, 'b_mixed': cases_mixed}[g['sec']]
    cache = {}
    for case in gen(g, acc.tier):
        acc.check_time()
        case.update(sec=g['sec'], sym=sym, dtype=g['dtype'])
        st, msg, nb = run_case(case, cfg, acc.seed, cache)
        acc.ev(repr(sorted(case.items())), nb >= 2 and st == 'ok', (case['op'], st))
        acc.cnt[g['sec'][2:] + '_' + st] += 1
        if 'rel' in case:
            acc.cnt['rel_' + case['rel']] += 1
        if st == 'viol':
            acc.fail(case, msg)
        elif acc.evaluations % 4001 == 0:
            acc.sample(case)
        if len(cache) > 400:
            cache.clear()


def replay(case, cfg):
    st, msg, _ = run_case(case, cfg, case.get('seed', 0), {})
    return [msg] if st == 'viol' else []


def _build(cfg, sym, td, seed, cache):
    key = repr(sorted(td.items()))
    b = cache.get(key)
    if b is None:
        b = cache[key] = GT.build(cfg, sym, td, seed)
    return b


# ---------------------------------------------------------------------------------------------------
# case generators

def _bsig(sa, ia, ib, rb, conj, free_pattern):
    """signature of b such that contraction with a (after conj flags) is valid"""
    ca, cb = conj
    sb = [None] * rb
    for i, j in zip(ia, ib):
        sb[j] = -sa[i] * (-1 if ca else 1) * (-1 if cb else 1)
    free = [j for j in range(rb) if j not in ib]
    for q, j in enumerate(free):
        sb[j] = 1 if free_pattern == 0 else (-1 if q % 2 == 0 else 1)
    return sb


def cases_tdot_struct(g, tier):
    sym, ra, rb, k = g['sym'], g['ra'], g['rb'], g['k']
    ms = GL.msize(sym, 3)
    nch = len(GL.CHARGES[sym])
    lvl = 0 if tier == 'quick' else 1
    Va = GT.variants(ra, lvl)
    Vb = GT.variants(rb, lvl)
    if k == 2 and tier == 'quick':
        Va, Vb = Va[:2], [Vb[0], Vb[-2]] if len(Vb) > 2 else Vb
    for ia in itertools.permutations(range(ra), k):
        for ib in itertools.permutations(range(rb), k):
            for sa in itertools.product((1, -1), repeat=ra):
                for fp in ((0, 1) if rb - k >= 1 else (0,)):
                    ma = [i % ms for i in range(ra)]
                    mb = [None] * rb
                    for i, j in zip(ia, ib):
                        mb[j] = ma[i]
                    for q, j in enumerate([j for j in range(rb) if j not in ib]):
                        mb[j] = (q + 1) % ms
                    for conj in CONJS:
                        sb = _bsig(sa, ia, ib, rb, conj, fp)
                        for va in Va:
                            for vb in Vb:
                                yield {'op': 'tensordot', 'axes': [list(ia), list(ib)], 'conj': list(conj),
                                       'a': {'s': list(sa), 'm': ma, 'n': min(1, nch - 1), 'drop': None, 'var': va, 'id': 'a'},
                                       'b': {'s': sb, 'm': mb, 'n': 0, 'drop': None, 'var': vb, 'id': 'b'}}
    # wrong signature / repeated axis / out-of-range: contract violations
    if k >= 1:
        ia, ib = tuple(range(k)), tuple(range(k))
        sa = [1] * ra
        sb = _bsig(sa, ia, ib, rb, (0, 0), 0)
        sb[0] = -sb[0]
        yield {'op': 'tensordot', 'axes': [list(ia), list(ib)], 'conj': [0, 0], 'expect': 'err',
               'a': {'s': sa, 'm': [0] * ra, 'n': 0, 'drop': None, 'var': ['fresh'], 'id': 'a'},
               'b': {'s': sb, 'm': [0] * rb, 'n': 0, 'drop': None, 'var': ['fresh'], 'id': 'b'}}
        sb[0] = -sb[0]
        yield {'op': 'tensordot', 'axes': [[0] * (k + 1), list(range(k)) + [0]], 'conj': [0, 0], 'expect': 'err',
               'a': {'s': sa, 'm': [0] * ra, 'n': 0, 'drop': None, 'var': ['fresh'], 'id': 'a'},
               'b': {'s': sb, 'm': [0] * rb, 'n': 0, 'drop': None, 'var': ['fresh'], 'id': 'b'}}
        yield {'op': 'tensordot', 'axes': [[ra], [0]], 'conj': [0, 0], 'expect': 'err',
               'a': {'s': sa, 'm': [0] * ra, 'n': 0, 'drop': None, 'var': ['fresh'], 'id': 'a'},
               'b': {'s': sb, 'm': [0] * rb, 'n': 0, 'drop': None, 'var': ['fresh'], 'id': 'b'}}


def cases_tdot_sector(g, tier):
    sym, ra, rb, k = g['sym'], g['ra'], g['rb'], g['k']
    ms = GL.msize(sym, 2 if tier == 'quick' else 4)
    nch = min(2, len(GL.CHARGES[sym]))
    axes_opts = [(tuple(range(ra - k, ra)), tuple(range(k)))]
    if k >= 1:
        axes_opts.append((tuple(range(k))[::-1], tuple(range(rb - k, rb))))
    sigs = [[1] * (ra - 1) + [-1], [(-1) ** i for i in range(ra)]] if ra > 1 else [[1], [-1]]
    drops = [(None, None), ([0], None), (None, [-1]), ([0], [0])]
    if tier == 'quick' and ra + rb >= 5:
        drops = drops[:3]
    vars_ = [(['fresh'], ['fresh'])]
    if ra >= 2 or rb >= 2:
        pa = GT.perms_for(ra, 0)
        pb = GT.perms_for(rb, 0)
        vars_.append((['lazy', list(pa[0])] if pa else ['fresh'], ['lazy', list(pb[-1])] if pb else ['fresh']))
    nfree = rb - k
    for ia, ib in axes_opts:
        for sa in sigs:
            for ma in itertools.product(range(ms), repeat=ra):
                alts = [[ma[i] for i in ia]]
                if k >= 1:
                    for shift in range(1, ms):
                        alts.append([(ma[i] + shift) % ms for i in ia])
                    alts.append(['c'] + [ma[i] for i in ia[1:]])
                for alt in alts:
                    frees = list(itertools.product(range(ms), repeat=nfree)) if nfree <= 1 else \
                        [tuple((q + s) % ms for q in range(nfree)) for s in range(ms)]
                    for mf in frees:
                        mb = [None] * rb
                        for q, j in enumerate(ib):
                            mb[j] = alt[q]
                        for q, j in enumerate([j for j in range(rb) if j not in ib]):
                            mb[j] = mf[q]
                        for na in range(nch):
                            for nb in range(nch):
                                for conj in ((0, 0), (1, 0)):
                                    sb = _bsig(sa, ia, ib, rb, conj, 1)
                                    for da, db in drops:
                                        for va, vb in vars_:
                                            c = {'op': 'tensordot', 'axes': [list(ia), list(ib)], 'conj': list(conj),
                                                 'a': {'s': list(sa), 'm': list(ma), 'n': na, 'drop': da, 'var': va, 'id': 'a'},
                                                 'b': {'s': sb, 'm': mb, 'n': nb, 'drop': db, 'var': vb, 'id': 'b'}}
                                            yield c
        # matmul
    if k == 1:
        for ma in itertools.product(range(ms), repeat=ra):
            for sh in range(ms):
                mb = [(ma[-1] + sh) % ms] + [(q + 1) % ms for q in range(rb - 1)]
                sa = [(-1) ** i for i in range(ra)]
                sb = [-sa[-1]] + [1] * (rb - 1)
                for va, vb in vars_:
                    yield {'op': 'matmul', 'a': {'s': sa, 'm': list(ma), 'n': nch - 1, 'drop': None, 'var': va, 'id': 'a'},
                           'b': {'s': sb, 'm': mb, 'n': 0, 'drop': [0], 'var': vb, 'id': 'b'}}


def cases_linear(g, tier):
    """a+b, a-b, add(a,b,c; amplitudes), vdot(a,b,conj) on tensors with identical signature/charge"""
    sym, r = g['sym'], g['rank']
    ms = GL.msize(sym, 2 if (tier == 'quick' and r >= 2) else 3)
    nch = min(2, len(GL.CHARGES[sym]))
    lvl = 0 if tier == 'quick' else 1
    V = GT.variants(r, lvl)
    sigs = list(itertools.product((1, -1), repeat=r))
    small = r >= 3 and tier == 'quick'
    if small:
        sigs = [s for s in sigs if s[0] == 1]
        V = V[:3]
    DROPS = ((None, None), ([0], [1])) if small else ((None, None), ([0], None), (None, [-1]), ([0], [1]))
    VCONJ = ((1, 0), (0, 1)) if small else CONJS
    for sa in sigs:
        for ma in itertools.product(range(ms), repeat=r):
            shifts = range(ms) if r else [0]
            for sh in shifts:
                mb = [(m + sh) % ms for m in ma]
                mbs = [mb]
                if r >= 1 and sh == 0:
                    mbs.append(['c'] + list(ma[1:]))   # conflicting dimensions
                for mb in mbs:
                    for n in range(nch):
                        for da, db in DROPS:
                            for va in V:
                                for vb in (V if (da is None and db is None) else V[:2]):
                                    ta = {'s': list(sa), 'm': list(ma), 'n': n, 'drop': da, 'var': va, 'id': 'a'}
                                    tb = {'s': list(sa), 'm': list(mb), 'n': n, 'drop': db, 'var': vb, 'id': 'b'}
                                    yield {'op': 'add', 'a': ta, 'b': tb}
                                    yield {'op': 'sub', 'a': ta, 'b': tb}
                                    for conj in VCONJ:
                                        tbv = dict(tb)
                                        # vdot contracts a' with b': signatures must be opposite after conj flags
                                        flip = -1 if (conj[0] + conj[1]) % 2 == 0 else 1
                                        tbv['s'] = [flip * s for s in sa]
                                        yield {'op': 'vdot', 'a': ta, 'b': tbv, 'conj': list(conj)}
                            if da is None and db is None:
                                tc = {'s': list(sa), 'm': [(m + 1) % ms for m in mb] if (not mb or mb[0] != 'c') else list(ma), 'n': n,
                                      'drop': [1], 'var': V[-1], 'id': 'c'}
                                ta = {'s': list(sa), 'm': list(ma), 'n': n, 'drop': None, 'var': V[0], 'id': 'a'}
                                tb = {'s': list(sa), 'm': list(mb), 'n': n, 'drop': None, 'var': V[1 % len(V)], 'id': 'b'}
                                for amps in (None, [2, -1, 3], [None, 0.5, -2]):
                                    yield {'op': 'add3', 'a': ta, 'b': tb, 'c': tc, 'amps': amps}
    # mismatched charge / signature -> YastnError
    if r >= 1 and nch > 1:
        ta = {'s': [1] * r, 'm': [0] * r, 'n': 0, 'drop': None, 'var': ['fresh'], 'id': 'a'}
        tb = {'s': [1] * r, 'm': [0] * r, 'n': 1, 'drop': None, 'var': ['fresh'], 'id': 'b'}
        yield {'op': 'add', 'a': ta, 'b': tb, 'expect': 'err'}
        tb2 = {'s': [-1] + [1] * (r - 1), 'm': [0] * r, 'n': 0, 'drop': None, 'var': ['fresh'], 'id': 'b'}
        yield {'op': 'sub', 'a': ta, 'b': tb2, 'expect': 'err'}


def cases_diagops(g, tier):
    """broadcast / apply_mask of a diagonal tensor on every axis; diagonal operands in tensordot; diag +- diag"""
    sym = g['sym']
    ms = GL.msize(sym, 3)
    nch = min(2, len(GL.CHARGES[sym]))
    lvl = 0 if tier == 'quick' else 1
    for r in (1, 2, 3):
        for ax in range(r):
            for sd in ((1, -1), (-1, 1)):
                for md in range(ms):
                    for vd in (['fresh'], ['lazy', [1, 0]]):
                        for dd in (None, [0]):
                            td = {'s': list(sd), 'm': [md, md], 'n': 0, 'drop': dd, 'diag': True, 'var': vd, 'id': 'd'}
                            for sh in range(ms):
                                for sb in ([1] * r, [(-1) ** (i + 1) for i in range(r)]):
                                    mb = [(i + 1) % ms for i in range(r)]
                                    mb[ax] = (md + sh) % ms
                                    for n in range(nch):
                                        for vb in (GT.variants(r, lvl) if (r < 3 or tier != 'quick') else GT.variants(r, lvl)[:2]):
                                            tb = {'s': list(sb), 'm': mb, 'n': n, 'drop': None if sh else [1], 'var': vb, 'id': 'b'}
                                            yield {'op': 'broadcast', 'a': td, 'b': tb, 'axis': ax}
                                            yield {'op': 'apply_mask', 'a': td, 'b': tb, 'axis': ax}
                                            if ax == r - 1:
                                                yield {'op': 'broadcast', 'a': td, 'b': tb, 'axis': -1}
                                            # tensordot with diagonal operand on either side
                                            tb2 = dict(tb)
                                            s2 = list(sb)
                                            s2[ax] = -sd[0]
                                            tb2['s'] = s2
                                            yield {'op': 'tensordot', 'a': td, 'b': tb2, 'axes': [[0], [ax]], 'conj': [0, 0]}
                                            s3 = list(sb)
                                            s3[ax] = -sd[1]
                                            tb3 = dict(tb, s=s3)
                                            yield {'op': 'tensordot', 'a': tb3, 'b': td, 'axes': [[ax], [1]], 'conj': [0, 0]}
                                            if r >= 2 and ax + 1 < r:
                                                s4 = list(sb)
                                                s4[ax], s4[ax + 1] = -sd[0], -sd[1]
                                                mb4 = list(mb)
                                                mb4[ax + 1] = mb4[ax]
                                                tb4 = dict(tb, s=s4, m=mb4)
                                                yield {'op': 'tensordot', 'a': td, 'b': tb4, 'axes': [[0, 1], [ax, ax + 1]], 'conj': [0, 0]}
                                                yield {'op': 'tensordot', 'a': tb4, 'b': td, 'axes': [[ax + 1, ax], [1, 0]], 'conj': [1, 1]}
    # diag with diag; outer product with diag must raise
    for sd in ((1, -1), (-1, 1)):
        for m1 in range(ms):
            for m2 in range(ms):
                for v1 in (['fresh'], ['lazy', [1, 0]]):
                    for v2 in (['fresh'], ['lazy', [1, 0]]):
                        t1 = {'s': list(sd), 'm': [m1, m1], 'n': 0, 'drop': None, 'diag': True, 'var': v1, 'id': 'd1'}
                        t2 = {'s': list(sd), 'm': [m2, m2], 'n': 0, 'drop': [0], 'diag': True, 'var': v2, 'id': 'd2'}
                        yield {'op': 'add', 'a': t1, 'b': t2}
                        yield {'op': 'sub', 'a': t1, 'b': t2}
                        t2c = dict(t2, s=[-sd[0], -sd[1]])
                        yield {'op': 'vdot', 'a': t1, 'b': t2c, 'conj': [0, 0]}
                        yield {'op': 'vdot', 'a': t1, 'b': t2, 'conj': [1, 0]}
                        yield {'op': 'broadcast', 'a': t1, 'b': t2, 'axis': 0}
                        yield {'op': 'apply_mask', 'a': t1, 'b': t2, 'axis': 0}
                        yield {'op': 'tensordot', 'a': t1, 'b': dict(t2, s=[-sd[1], sd[1]]), 'axes': [[1], [0]], 'conj': [0, 0]}
        t1 = {'s': list(sd), 'm': [0, 0], 'n': 0, 'drop': None, 'diag': True, 'var': ['fresh'], 'id': 'd1'}
        tb = {'s': [1], 'm': [0], 'n': 0, 'drop': None, 'var': ['fresh'], 'id': 'b'}
        yield {'op': 'tensordot', 'a': t1, 'b': tb, 'axes': [[], []], 'conj': [0, 0], 'expect': 'err'}


# ---------------------------------------------------------------------------------------------------
# execution + reference

def _conj_view(b, c):
    mods = G.moduli(b.x.config.sym)
    if c:
        return b.A.conj(), tuple(-s for s in b.s), G.neg(mods, b.n)
    return b.A, tuple(b.s), tuple(b.n)


def _own_conflict(a, ia, b, ib):
    """True if the stored sectors of the paired legs have conflicting dimensions"""
    oa, ob = a.own, b.own
    return any(not GL.consistent(oa[i], ob[j]) for i, j in zip(ia, ib))


def run_case(case, cfg, seed, cache):
    sym = case['sym']
    mods = G.moduli(sym)
    a = _build(cfg, sym, case['a'], seed, cache)
    b = _build(cfg, sym, case['b'], seed, cache)
    nb = a.nblocks + b.nblocks
    op = case['op']
    try:
        st, msg = _run(case, op, a, b, cfg, sym, mods, seed, cache)
    except MD.ShadowError as e:
        st, msg = 'viol', f"{op}: {e}"
    return st, msg, nb


def _expect_err(res, what):
    st, r = res
    if st == 'yerr':
        return 'rejected', None
    return 'viol', f"{what}: expected YastnError, got {st} {r if st == 'exc' else ''}"


def _unspecified(res, what):
    st, r = res
    if st == 'exc':
        return 'viol', f"{what}: {r}"
    return 'rejected', None


def _run(case, op, a, b, cfg, sym, mods, seed, cache):
    xa, xb = a.x, b.x
    if op in ('tensordot', 'matmul'):
        if op == 'matmul':
            ia, ib, conj = (len(a.s) - 1,), (0,), (0, 0)
            f = lambda: xa @ xb
        else:
            ia, ib = (tuple(v) for v in case['axes'])
            conj = tuple(case['conj'])
            f = lambda: yastn.tensordot(xa, xb, axes=(ia, ib), conj=conj)
        if case.get('expect') == 'err':
            return _expect_err(TC.call(f), f"tensordot {case['axes']}")
        case['rel'] = '+'.join(GL.relation(a.spaces[i], b.spaces[j]) for i, j in zip(ia, ib)) or 'outer'
        A, sa, na = _conj_view(a, conj[0])
        Bm, sb, nb_ = _conj_view(b, conj[1])
        if any(sa[i] != -sb[j] for i, j in zip(ia, ib)):
            return _expect_err(TC.call(f), "tensordot with non-matching signatures")
        if _own_conflict(a, ia, b, ib):   # an error is raised only when two matching blocks disagree
            return _unspecified(TC.call(f), "tensordot with conflicting sector dimensions")
        if any(not GL.consistent(a.spaces[i], b.spaces[j]) for i, j in zip(ia, ib)):
            return _unspecified(TC.call(f), "tensordot")
        if (xa.isdiag or xb.isdiag) and len(ia) == 0:
            return _expect_err(TC.call(f), "outer product with diagonal tensor")
        spa, spb = list(a.spaces), list(b.spaces)
        for i, j in zip(ia, ib):
            u = MD.union(spa[i], spb[j])
            spa[i] = u
            spb[j] = u
        Ae, Be = MD.embed(A, a.spaces, spa), MD.embed(Bm, b.spaces, spb)
        R = np.tensordot(Ae, Be, axes=(ia, ib))
        fa = [i for i in range(len(sa)) if i not in ia]
        fb = [j for j in range(len(sb)) if j not in ib]
        sp = [a.spaces[i] for i in fa] + [b.spaces[j] for j in fb]
        sg = tuple(sa[i] for i in fa) + tuple(sb[j] for j in fb)
        nn = G.add(mods, [na, nb_])
        st, r = TC.call(f)
        if st != 'ok':
            return 'viol', f"tensordot axes={ia, ib} conj={conj}: unexpected {st}: {r}"
        m = TC.check_result(r, R, sp, sg, nn, what=f"tensordot(axes={ia, ib}, conj={conj})")
        return ('viol', m) if m else ('ok', None)
    if op in ('add', 'sub', 'add3'):
        ops = [a, b]
        if op == 'add3':
            ops.append(_build(cfg, sym, case['c'], seed, cache))
        xs = [o.x for o in ops]
        if op == 'add':
            f = lambda: xs[0] + xs[1]
        elif op == 'sub':
            f = lambda: xs[0] - xs[1]
        else:
            f = lambda: yastn.add(*xs, amplitudes=case['amps'])
        rank = len(a.s)
        case['rel'] = '+'.join(GL.relation(a.spaces[i], b.spaces[i]) for i in range(rank)) or 'scalar'
        if case.get('expect') == 'err':
            return _expect_err(TC.call(f), op)
        owns = [o.own for o in ops]
        if any(not GL.consistent(o1[i], o2[i]) for o1 in owns for o2 in owns for i in range(rank)):
            return _expect_err(TC.call(f), f"{op} with conflicting sector dimensions")
        if any(not GL.consistent(o1.spaces[i], o2.spaces[i]) for o1 in ops for o2 in ops for i in range(rank)):
            return _unspecified(TC.call(f), op)
        sp = [MD.union(*[o.spaces[i] for o in ops]) for i in range(rank)]
        Es = [MD.embed(o.A, o.spaces, sp) for o in ops]
        if op == 'add':
            R = Es[0] + Es[1]
        elif op == 'sub':
            R = Es[0] - Es[1]
        else:
            amps = case['amps'] or [1, 1, 1]
            R = sum((1 if am is None else am) * E for am, E in zip(amps, Es))
        st, r = TC.call(f)
        if st != 'ok':
            return 'viol', f"{op}: unexpected {st}: {r}"
        m = TC.check_result(r, R, sp, a.s, a.n, what=op)
        return ('viol', m) if m else ('ok', None)
    if op == 'vdot':
        conj = tuple(case['conj'])
        f = lambda: yastn.vdot(xa, xb, conj=conj)
        rank = len(a.s)
        A, sa, na = _conj_view(a, conj[0])
        Bm, sb, nb_ = _conj_view(b, conj[1])
        if any(x != -y for x, y in zip(sa, sb)):
            return _expect_err(TC.call(f), "vdot with non-matching signatures")
        if _own_conflict(a, range(rank), b, range(rank)):
            st, r = TC.call(f)
            # legs conflict, but vdot only looks at common blocks: an error is required only if a common block differs
            return _unspecified((st, r), 'vdot')
        if any(not GL.consistent(a.spaces[i], b.spaces[i]) for i in range(rank)):
            return _unspecified(TC.call(f), 'vdot')
        sp = [MD.union(a.spaces[i], b.spaces[i]) for i in range(rank)]
        ref = np.sum(MD.embed(A, a.spaces, sp) * MD.embed(Bm, b.spaces, sp))
        st, v = TC.call(f)
        if st != 'ok':
            return 'viol', f"vdot conj={conj}: unexpected {st}: {v}"
        if v != ref:
            return 'viol', f"vdot(conj={conj}) = {v}, NumPy gives {ref}"
        return 'ok', None
    if op in ('broadcast', 'apply_mask'):
        ax = case['axis']
        f = (lambda: xa.broadcast(xb, axes=ax)) if op == 'broadcast' else (lambda: xa.apply_mask(xb, axes=ax))
        rank = len(b.s)
        axp = ax % rank
        dsp = a.spaces[0]
        if xb.isdiag:
            axp = 0
        own_d, own_b = a.own, b.own
        if not GL.consistent(own_d[0], own_b[axp]):
            if op == 'apply_mask':   # a mask of the wrong length is a caller error; apply_mask does not validate it
                TC.call(f)
                return 'rejected', None
            return _expect_err(TC.call(f), f"{op} with conflicting dimensions")
        if not GL.consistent(dsp, b.spaces[axp]):
            return _unspecified(TC.call(f), op)
        st, r = TC.call(f)
        if st != 'ok':
            return 'viol', f"{op}(axes={ax}): unexpected {st}: {r}"
        dvec = np.diag(a.A)                      # over sorted charges of dsp
        offs_d, _ = MD.offsets(dsp)
        if op == 'broadcast':
            # result keeps the legs of b; sectors of b absent in the diagonal give zero
            offs_b, tot = MD.offsets(b.spaces[axp])
            w = np.zeros(tot, dtype=a.A.dtype)
            for t, (lo, hi) in offs_b.items():
                if t in offs_d:
                    w[lo:hi] = dvec[slice(*offs_d[t])]
            shape = [1] * rank
            shape[axp] = tot
            if xb.isdiag:
                R = b.A * np.diag(w)
            else:
                R = b.A * w.reshape(shape)
            m = TC.check_result(r, R, b.spaces, b.s, b.n, what=f"broadcast(axes={ax})")
            return ('viol', m) if m else ('ok', None)
        # apply_mask: keep indices where the diagonal is non-zero; sectors without kept index disappear
        offs_b, tot = MD.offsets(b.spaces[axp])
        keep, newsp = [], {}
        pmask = TC.present_mask(a)
        pm_d = np.diag(pmask)
        for t in sorted(b.spaces[axp]):
            lo, hi = offs_b[t]
            if t in offs_d:
                dl, dh = offs_d[t]
                k = [lo + q for q in range(hi - lo) if dvec[dl + q] != 0 and pm_d[dl + q]]
                if k:
                    keep += k
                    newsp[t] = len(k)
        if xb.isdiag:
            R = b.A[np.ix_(keep, keep)]
            sp = [newsp, newsp]
        else:
            R = np.take(b.A, keep, axis=axp)
            sp = list(b.spaces)
            sp[axp] = newsp
        m = TC.check_result(r, R, sp, b.s, b.n, what=f"apply_mask(axes={ax})")
        return ('viol', m) if m else ('ok', None)
    raise KeyError(op)
