"""
C20 - Lattice geometry is a consistent indexing of the square lattice.
Complete enumeration of geometries (all SquareLattice dims x boundaries, Checkerboard, Triangular variants, all
RectangularUnitcell patterns up to the stated sizes) with every site of a window, all 8 directions and shifts, checked
against an integer-pair reference model; explicit-state BFS over container operations (set/get/patch/copy).
"""
import collections
import itertools

import yastn
import yastn.tn.fpeps as fpeps
from yastn import YastnError

from vmc.engine.runner import h64
from vmc.models import lattice as ML

PROPERTY_ID = 'C20'
LEVEL = 'model_checking'
RULE = ("complete enumeration of geometries within bounds (one evaluation = one geometry with all window sites/directions/"
        "shifts/bonds checked, or one constructor acceptance decision); container: explicit-state BFS over operation sequences, "
        "state = (site store, patch store) of the reference dictionary model; non-trivial = geometry with >= 2 unique sites")
ASSUMPTIONS = ["bonds crossing the periodic boundary of a cylinder are listed against the fermionic order (the only satisfiable reading)",
               "sites outside an open lattice are not part of the indexing", "copy()/shallow_copy() with a pending patch is unspecified"]
BUDGET = {'quick': 120, 'thorough': 900}
SHIFTS = [(dx, dy) for dx in range(-3, 4) for dy in range(-3, 4)]


def groups(tier, seed):
    gs = []
    mx = 5
    for Nx in range(1, mx + 1):
        for Ny in range(1, mx + 1):
            gs.append({'kind': 'square', 'dims': [Nx, Ny], 'level': 1})
    gs.append({'kind': 'special', 'level': 1})
    shapes_small = [(a, b) for a in range(1, 7) for b in range(1, 7) if a * b <= 6]
    for sh in shapes_small:
        gs.append({'kind': 'patterns_all', 'shape': list(sh), 'level': 1})
    rg = [(3, 3), (2, 4), (4, 2), (3, 4), (4, 3)]
    for sh in rg:
        P = 8 if sh[0] * sh[1] <= 9 else 64
        for part in range(P):
            gs.append({'kind': 'patterns_rgs', 'shape': list(sh), 'maxlabels': 4, 'part': part, 'parts': P, 'level': 2})
    if tier != 'quick':
        for part in range(256):
            gs.append({'kind': 'patterns_rgs', 'shape': [4, 4], 'maxlabels': 3, 'part': part, 'parts': 256, 'level': 3})
    gs.append({'kind': 'malformed', 'level': 1})
    for geo in ('sq_inf', 'sq_obc', 'sq_cyl', 'checker', 'unitcell', 'tri3', 'tri_full', 'peps'):
        gs.append({'kind': 'container', 'geo': geo, 'depth': 4 if tier == 'quick' else 5, 'level': 1})
    return gs


def run_group(g, acc):
    {'square': run_square, 'special': run_special, 'patterns_all': run_patterns_all, 'patterns_rgs': run_patterns_rgs,
     'malformed': run_malformed, 'container': run_container}[g['kind']](g, acc)


# ---------------------------------------------------------------------------------------------

def check_geometry(G, ref, check_site_order=False, diag_bonds=False):
    """G: yastn geometry object; ref: models.lattice.Geo. returns message or None"""
    W = [s for s in ref.window() if ref.exists(s)]
    Ws = set(W)
    # 1/2: neighbours
    for s in W:
        for d in ML.DIRS:
            got, exp = G.nn_site(s, d), ref.nn(s, d)
            if (got is None) != (exp is None) or (got is not None and tuple(got) != tuple(exp)):
                return f"nn_site({s}, '{d}') = {got}, reference {exp}"
            if got is not None:
                dx, dy = ML.DIRS[d]
                back = G.nn_site(got, (-dx, -dy))
                if back is None or ref.ident(tuple(back)) != ref.ident(s) or \
                        (G.site2index(back) != G.site2index(s)):
                    return f"nn_site(nn_site({s}, '{d}'), opposite) = {back} is not (identified with) {s}"
    for s in W[:: max(1, len(W) // 12)]:
        for sh in SHIFTS:
            got, exp = G.nn_site(s, sh), ref.nn(s, sh)
            if (got is None) != (exp is None) or (got is not None and tuple(got) != tuple(exp)):
                return f"nn_site({s}, {sh}) = {got}, reference {exp}"
    if G.nn_site(None, 'r') is not None:
        return "nn_site(None, d) is not None"
    # 5: identification
    idx = {s: G.site2index(s) for s in W}
    cls = {s: ref.ident(s) for s in W}
    i2c, c2i = {}, {}
    for s in W:
        if i2c.setdefault(idx[s], cls[s]) != cls[s]:
            other = next(t for t in W if idx[t] == idx[s] and cls[t] != cls[s])
            return f"site2index identifies {s} and {other} (both -> {idx[s]}) although they are different lattice sites"
        if c2i.setdefault(cls[s], idx[s]) != idx[s]:
            other = next(t for t in W if cls[t] == cls[s] and idx[t] != idx[s])
            return f"site2index distinguishes {s} -> {idx[s]} and {other} -> {idx[other]} although the lattice periods identify them"
    sites = [tuple(s) for s in G.sites()]
    sidx = [G.site2index(s) for s in sites]
    if len(set(sidx)) != len(sidx):
        return f"sites() lists a unique site twice: indices {sidx}"
    if any(not ref.exists(s) for s in sites):
        return f"sites() lists a site outside the lattice: {sites}"
    if set(sidx) != set(idx.values()):
        return f"sites() does not cover all index classes: {sorted(map(str, set(idx.values()) - set(sidx)))} missing"
    if list(G.sites(reverse=True)) != list(G.sites())[::-1]:
        return "sites(reverse=True) is not the reversed list"
    # 4: fermionic order
    Wf = W if len(W) <= 64 else W[:: len(W) // 48]
    for a in Wf:
        if not G.f_ordered(a, a):
            return f"f_ordered({a}, {a}) is False"
        for b in Wf:
            ab, ba = G.f_ordered(a, b), G.f_ordered(b, a)
            if not ab and not ba:
                return f"f_ordered is not total: neither ({a},{b}) nor ({b},{a})"
            if ab and ba and a != b:
                return f"f_ordered is not antisymmetric on {a}, {b}"
            if ab != ref.f_before(a, b):
                return f"f_ordered({a}, {b}) = {ab}; column-major order says {ref.f_before(a, b)}"
    small = Wf[:18]
    for a, b, c in itertools.product(small, repeat=3):
        if G.f_ordered(a, b) and G.f_ordered(b, c) and not G.f_ordered(a, c):
            return f"f_ordered is not transitive on {a}, {b}, {c}"
    if check_site_order:
        for a, b in zip(sites, sites[1:]):
            if not G.f_ordered(a, b):
                return f"sites() is not listed in fermionic order: {a} before {b}"
    # 3/6: bonds
    listed = collections.OrderedDict()
    for dirn, want in (('h', 'lr'), ('v', 'tb')):
        for bd in G.bonds(dirn):
            s0, s1 = tuple(bd.site0), tuple(bd.site1)
            st = None
            try:
                st = G.nn_bond_dirn(s0, s1)
                st2 = G.nn_bond_dirn(bd)
            except YastnError as e:
                return f"listed bond {bd} is rejected by nn_bond_dirn: {e}"
            if st != want or st2 != want:
                return f"listed {dirn}-bond {bd} has nn_bond_dirn {st}, expected {want}"
            exp1 = ref.nn(s0, 'r' if dirn == 'h' else 'b')
            if exp1 is None or ref.ident(exp1) != ref.ident(s1):
                return f"listed {dirn}-bond {bd} does not join nearest neighbours"
            wraps = ref.px == 'p' and dirn == 'v' and s0[0] + 1 != s1[0]
            if wraps:
                if ref.Nx > 1 and G.f_ordered(s0, s1):
                    return f"boundary-crossing bond {bd} claims to be fermionically ordered"
            elif not G.f_ordered(s0, s1):
                return f"listed bond {bd} is not in fermionic order"
            key = (G.site2index(s0), G.site2index(s1), dirn)
            if key in listed:
                return f"bond class {key} is listed twice ({listed[key]} and {bd})"
            listed[key] = bd
    allb = list(G.bonds())
    if diag_bonds:
        for bd in G.bonds('d'):
            s0, s1 = tuple(bd.site0), tuple(bd.site1)
            if not any(ref.nn(s, 'b') == s0 and ref.nn(s, 'r') == s1 for s in W):
                return f"diagonal bond {bd} does not join the bottom and right neighbours of a site"
            if s0[0] == s1[0] + 1 and not G.f_ordered(s0, s1):
                return f"diagonal bond {bd} is not in fermionic order"
        if len(allb) != len(G.bonds('h')) + len(G.bonds('v')) + len(G.bonds('d')):
            return "bonds() is not the concatenation of h, v and d bonds"
    elif allb != list(G.bonds('h')) + list(G.bonds('v')):
        return "bonds() is not h-bonds followed by v-bonds"
    if list(G.bonds(reverse=True)) != allb[::-1]:
        return "bonds(reverse=True) is not the reversed list"
    for s in W:
        for d, dirn in (('r', 'h'), ('b', 'v')):
            t = ref.nn(s, d)
            if t is None or t not in Ws and ref.px in 'op' and ref.py in 'op':
                continue
            key = (G.site2index(s), G.site2index(t), dirn)
            if key not in listed:
                return f"nearest-neighbour pair {s} -{d}-> {t} (class {key}) is not covered by the listed bonds"
    # non-neighbours are rejected
    Wn = W if len(W) <= 40 else W[:: len(W) // 30]
    for a in Wn:
        nbrs = {ref.nn(a, d) for d in 'lrtb'}
        for b in Wn:
            try:
                st = G.nn_bond_dirn(a, b)
                if b not in nbrs:
                    return f"nn_bond_dirn({a}, {b}) = {st} for sites that are not nearest neighbours"
            except YastnError:
                if b in nbrs:
                    return f"nn_bond_dirn({a}, {b}) rejects nearest neighbours"
    return None


def _eval(acc, case, msg, nontriv=True, outcome=None):
    acc.ev(repr(case), nontriv and msg is None, outcome if outcome is not None else (case.get('kind'), msg is None))
    if msg:
        acc.fail(case, msg)


def run_square(g, acc):
    Nx, Ny = g['dims']
    for b in ('obc', 'infinite', 'cylinder'):
        case = {'kind': 'square', 'dims': [Nx, Ny], 'boundary': b}
        msg = geometry_case(case)
        _eval(acc, case, msg, Nx * Ny >= 2, ('square', b, msg is None))
        acc.cnt['geometries'] += 1
    acc.sample({'kind': 'square', 'dims': [Nx, Ny], 'boundary': 'cylinder'})


def run_special(g, acc):
    cases = [{'kind': 'checkerboard'}]
    for Nx in range(1, 5):
        for Ny in range(1, 5):
            for b in ('obc', 'infinite', 'cylinder'):
                cases.append({'kind': 'triangular', 'dims': [Nx, Ny], 'boundary': b, 'full_patch': True})
    cases.append({'kind': 'triangular', 'dims': [3, 3], 'boundary': 'infinite', 'full_patch': False})
    for case in cases:
        acc.check_time()
        msg = geometry_case(case)
        _eval(acc, case, msg)
        acc.cnt['geometries'] += 1
    # equality of geometries
    A = fpeps.SquareLattice(dims=(2, 2), boundary='infinite')
    checks = [(A == fpeps.SquareLattice(dims=(2, 2), boundary='infinite'), True), (A == fpeps.SquareLattice(dims=(2, 2), boundary='obc'), False),
              (A == fpeps.SquareLattice(dims=(2, 3), boundary='infinite'), False), (A == fpeps.CheckerboardLattice(), False),
              (fpeps.CheckerboardLattice() == fpeps.CheckerboardLattice(), True),
              (fpeps.RectangularUnitcell([[0, 1], [1, 0]]) == fpeps.RectangularUnitcell({(0, 0): 5, (0, 1): 7, (1, 0): 7, (1, 1): 5}), False),
              (fpeps.RectangularUnitcell([[0, 1], [1, 0]]) == fpeps.RectangularUnitcell([[0, 1], [1, 0]]), True)]
    for i, (got, exp) in enumerate(checks[:5] + checks[6:]):
        _eval(acc, {'kind': 'equality', 'i': i}, None if got == exp else f"geometry equality check #{i} gives {got}, expected {exp}")
    acc.sample(cases[5])


def geometry_case(case):
    k = case['kind']
    try:
        if k == 'square':
            G = fpeps.SquareLattice(dims=tuple(case['dims']), boundary=case['boundary'])
            ref = ML.square(*case['dims'], case['boundary'])
            if tuple(G.dims) != tuple(case['dims']) or (G.Nx, G.Ny) != tuple(case['dims']):
                return f"dims {G.dims}"
            return check_geometry(G, ref, check_site_order=True)
        if k == 'checkerboard':
            return check_geometry(fpeps.CheckerboardLattice(), ML.checkerboard())
        if k == 'triangular':
            G = fpeps.TriangularLattice(dims=tuple(case['dims']), boundary=case['boundary'], full_patch=case['full_patch'])
            ref = ML.triangular(*case['dims'], case['boundary'], case['full_patch'])
            return check_geometry(G, ref, check_site_order=case['full_patch'], diag_bonds=True)
        if k == 'unitcell':
            pat = case['pattern']
            G = fpeps.RectangularUnitcell(pattern=pat if not case.get('as_dict') else
                                          {(x, y): v for x, row in enumerate(pat) for y, v in enumerate(row)})
            return check_geometry(G, ML.unitcell(pat))
    except YastnError as e:
        return f"constructor/check raised YastnError: {e}"
    except Exception as e:
        return f"raised {type(e).__name__}: {e}"
    return f"unknown geometry kind {k}"


def accept_case(pat, as_dict=False):
    """returns message or None: pattern accepted iff the reference says every label has one neighbourhood"""
    valid = ML.pattern_valid(pat)
    arg = pat if not as_dict else {(x, y): v for x, row in enumerate(pat) for y, v in enumerate(row)}
    try:
        fpeps.RectangularUnitcell(pattern=arg)
        ok = True
    except YastnError:
        ok = False
    except Exception as e:
        return f"RectangularUnitcell({pat}) raised {type(e).__name__}: {e}", valid
    if ok != valid:
        return (f"RectangularUnitcell({pat}) was {'accepted' if ok else 'rejected'} but the pattern "
                f"{'gives some label two different neighbourhoods' if not valid else 'is consistent'}"), valid
    return None, valid


def run_patterns_all(g, acc):
    Nx, Ny = g['shape']
    n = Nx * Ny
    perms = list(itertools.permutations(range(4)))
    for flat_ in itertools.product(range(4), repeat=n):
        acc.check_time()
        pat = [list(flat_[x * Ny:(x + 1) * Ny]) for x in range(Nx)]
        case = {'kind': 'accept', 'pattern': pat}
        msg, valid = accept_case(pat)
        _eval(acc, case, msg, len(set(flat_)) >= 2, ('accept', valid))
        acc.cnt['patterns_valid' if valid else 'patterns_invalid'] += 1
        if msg:
            continue
        # acceptance is invariant under relabeling (justifies the restricted-growth reduction for larger shapes)
        if list(flat_) == _rgs_canon(flat_):
            for p in perms[1:]:
                pat2 = [[p[v] for v in row] for row in pat]
                m2, _ = accept_case(pat2, as_dict=(p[0] == 3))
                acc.evaluations += 1
                if m2:
                    acc.fail({'kind': 'accept', 'pattern': pat2, 'as_dict': p[0] == 3}, m2 + " (relabeling of an accepted/rejected pattern)")
                    break
        if valid:
            c2 = {'kind': 'unitcell', 'pattern': pat, 'as_dict': sum(flat_) % 2 == 1}
            m3 = geometry_case(c2)
            _eval(acc, c2, m3, len(set(flat_)) >= 2)
            acc.cnt['geometries'] += 1
            if acc.cnt['geometries'] % 37 == 0:
                acc.sample(c2)


def _rgs_canon(flat_):
    m, out = {}, []
    for v in flat_:
        out.append(m.setdefault(v, len(m)))
    return out


def run_patterns_rgs(g, acc):
    Nx, Ny = g['shape']
    k = -1
    for flat_ in ML.rgs(Nx * Ny, g['maxlabels']):
        k += 1
        if k % g['parts'] != g['part']:
            continue
        acc.check_time()
        pat = [list(flat_[x * Ny:(x + 1) * Ny]) for x in range(Nx)]
        case = {'kind': 'accept', 'pattern': pat}
        msg, valid = accept_case(pat)
        _eval(acc, case, msg, True, ('accept', valid))
        acc.cnt['patterns_valid' if valid else 'patterns_invalid'] += 1
        if valid and not msg:
            c2 = {'kind': 'unitcell', 'pattern': pat}
            m3 = geometry_case(c2)
            _eval(acc, c2, m3)
            acc.cnt['geometries'] += 1
            if acc.cnt['geometries'] % 17 == 0:
                acc.sample(c2)


def run_malformed(g, acc):
    bad = [[[0, 1], [0]], [[0, 1], [1, 0, 1]], 5, [0, 1], {(0, 0): 0, (1, 1): 1}, {(1, 0): 0, (1, 1): 1}, {(0, 1): 0, (0, 2): 1},
           [[[0], 1], [1, [0]]], {(-1, 0): 0, (0, 0): 1}, [[0, 1], [1, 1]], [[0, 1, 2], [0, 1, 2], [1, 2, 0]]]
    for i, pat in enumerate(bad):
        case = {'kind': 'malformed', 'i': i, 'pattern': repr(pat)}
        msg = malformed_case(pat)
        _eval(acc, case, msg, True, ('malformed', msg is None))
    for b in ('periodic', 'open', None, 'OBC'):
        try:
            fpeps.SquareLattice(dims=(2, 2), boundary=b)
            msg = f"SquareLattice(boundary={b!r}) accepted"
        except YastnError:
            msg = None
        except Exception as e:
            msg = f"SquareLattice(boundary={b!r}) raised {type(e).__name__}"
        _eval(acc, {'kind': 'malformed_boundary', 'b': repr(b)}, msg)
    acc.sample({'kind': 'malformed', 'patterns': [repr(b_) for b_ in bad]})


def malformed_case(pat):
    try:
        fpeps.RectangularUnitcell(pattern=pat)
    except YastnError:
        return None
    except Exception as e:
        return f"RectangularUnitcell({pat!r}) raised {type(e).__name__}: {e} instead of YastnError"
    return f"RectangularUnitcell({pat!r}) was accepted"


# ---------------------------------------------------------------------------------------------
# container

class Obj:
    """minimal stored object: value token with the copy protocol used by Lattice"""
    def __init__(self, v):
        self.v = v

    def shallow_copy(self):
        return Obj(self.v)

    def copy(self):
        return Obj(self.v)

    def clone(self):
        return Obj(self.v)


def container_setup(geo):
    if geo == 'sq_inf':
        G, ref = fpeps.SquareLattice(dims=(2, 2), boundary='infinite'), ML.square(2, 2, 'infinite')
        sites = [(0, 0), (2, 0), (0, 1), (1, 3)]
    elif geo == 'sq_obc':
        G, ref = fpeps.SquareLattice(dims=(2, 2), boundary='obc'), ML.square(2, 2, 'obc')
        sites = [(0, 0), (1, 1), (0, 1), (1, 0)]
    elif geo == 'sq_cyl':
        G, ref = fpeps.SquareLattice(dims=(2, 2), boundary='cylinder'), ML.square(2, 2, 'cylinder')
        sites = [(0, 0), (2, 0), (0, 1), (-1, 1)]
    elif geo == 'checker':
        G, ref = fpeps.CheckerboardLattice(), ML.checkerboard()
        sites = [(0, 0), (1, 1), (0, 1), (3, 0)]
    elif geo == 'unitcell':
        pat = [[0, 1, 2], [1, 2, 0], [2, 0, 1]]
        G, ref = fpeps.RectangularUnitcell(pattern=pat), ML.unitcell(pat)
        sites = [(0, 0), (1, 2), (0, 1), (4, 4)]
    elif geo == 'tri3':
        G, ref = fpeps.TriangularLattice(), ML.triangular(3, 3, 'infinite', False)
        sites = [(0, 0), (1, 1), (0, 1), (2, 0)]
    elif geo == 'tri_full':
        G, ref = fpeps.TriangularLattice(dims=(2, 3), full_patch=True), ML.triangular(2, 3, 'infinite', True)
        sites = [(0, 2), (1, 0), (2, 5), (1, 1)]
    else:
        raise KeyError(geo)
    return G, ref, sites


def run_container(g, acc):
    geo = g['geo']
    if geo == 'peps':
        return run_container_peps(g, acc)
    G, ref, sites = container_setup(geo)
    acts = []
    for i in range(len(sites)):
        for v in (1, 2):
            acts.append(('set', i, v))
        acts.append(('patch', i))
    acts += [('apply',), ('shallow',), ('copy',), ('patch2',)]
    seen = set()
    frontier = collections.deque([[]])
    while frontier:
        hist = frontier.popleft()
        acc.check_time()
        msg, key = container_run(G, ref, sites, hist)
        acc.transitions += 1
        acc.ev(None, False, ('container', msg is None))
        if msg:
            acc.fail({'kind': 'container', 'geo': geo, 'hist': hist}, msg)
            continue
        if key in seen:
            continue
        seen.add(key)
        acc.states += 1
        acc.nontrivial.add(h64((geo, key)))
        if acc.states % 97 == 0:
            acc.sample({'kind': 'container', 'geo': geo, 'hist': hist})
        if len(hist) < g['depth']:
            for a in acts:
                frontier.append(hist + [list(a)])


def container_run(G, ref, sites, hist):
    """replay history on a fresh Lattice and on the dictionary model; compare every read. returns (msg, state key)"""
    uniq = [tuple(s) for s in G.sites()]
    L = fpeps.Lattice(G, objects={s: Obj(0) for s in uniq})
    store = {ref.ident(s): 0 for s in uniq}
    patch = {}
    for a in hist:
        op = a[0]
        try:
            if op == 'set':
                s = sites[a[1]]
                L[s] = Obj(a[2] * 10 + a[1])
                if s in patch:
                    patch[s] = a[2] * 10 + a[1]
                else:
                    store[ref.ident(s)] = a[2] * 10 + a[1]
            elif op == 'patch':
                s = sites[a[1]]
                L.move_to_patch(s)
                patch[s] = patch[s] if s in patch else store[ref.ident(s)]
            elif op == 'patch2':
                L.move_to_patch([sites[0], sites[2]])
                for s in (sites[0], sites[2]):
                    patch[s] = patch[s] if s in patch else store[ref.ident(s)]
            elif op == 'apply':
                L.apply_patch()
                for s in list(patch):
                    store[ref.ident(s)] = patch.pop(s)
            elif op in ('shallow', 'copy'):
                if patch:
                    continue           # unspecified with a pending patch (see ASSUMPTIONS)
                L2 = L.shallow_copy() if op == 'shallow' else L.copy()
                for s in uniq:
                    same = L2[s] is L[s]
                    if same != (op == 'shallow'):
                        return f"{op}: object at {s} is {'shared' if same else 'not shared'} with the source", None
                L = L2
        except Exception as e:
            return f"{a} raised {type(e).__name__}: {e} (history {hist})", None
        # every read must return what the model predicts
        for s in sites + uniq:
            exp = patch[s] if s in patch else store[ref.ident(s)]
            try:
                got = L[s].v
            except Exception as e:
                return f"L[{s}] raised {type(e).__name__}: {e} after {hist}", None
            if got != exp:
                return f"L[{s}] returns object {got}, the indexing model predicts {exp} (history {hist})", None
        it = list(L.items())
        if [tuple(s) for s, _ in it] != uniq or any(o.v != (patch[s] if s in patch else store[ref.ident(s)]) for s, o in zip(uniq, (o for _, o in it))):
            return f"items() inconsistent with reads after {hist}", None
    key = h64((tuple(sorted((str(k), v) for k, v in store.items())), tuple(sorted(patch.items()))))
    return None, key


def run_container_peps(g, acc):
    """Peps inherits the container: constructor input forms with unique / non-unique assignments"""
    import numpy as np
    cfg = yastn.make_config(sym='dense')

    def T(v):
        return yastn.Tensor(config=cfg, s=(-1, 1, 1, -1, 1)).set_block(Ds=(1, 1, 1, 1, 2), val=np.array([v, v])) or None
    tens = []
    for v in range(4):
        t = yastn.Tensor(config=cfg, s=(-1, 1, 1, -1, 1))
        t.set_block(Ds=(1, 1, 1, 1, 2), val=np.array([float(v), 1.0]))
        tens.append(t)
    geos = [('checker', fpeps.CheckerboardLattice(), ML.checkerboard()), ('sq_inf', fpeps.SquareLattice(dims=(2, 2)), ML.square(2, 2, 'infinite')),
            ('sq_obc', fpeps.SquareLattice(dims=(2, 2), boundary='obc'), ML.square(2, 2, 'obc'))]
    for name, G, ref in geos:
        for assign in itertools.product(range(3), repeat=4):
            grid = [[tens[assign[0]], tens[assign[1]]], [tens[assign[2]], tens[assign[3]]]]
            cells = {(0, 0): assign[0], (0, 1): assign[1], (1, 0): assign[2], (1, 1): assign[3]}
            unique_ok = all(cells[a] == cells[b] for a in cells for b in cells if ref.ident(a) == ref.ident(b))
            for form in ('list', 'dict'):
                arg = grid if form == 'list' else {k: tens[v] for k, v in cells.items()}
                case = {'kind': 'peps_ctor', 'geo': name, 'assign': list(assign), 'form': form}
                try:
                    psi = fpeps.Peps(G, tensors=arg)
                    ok = True
                except YastnError:
                    ok = False
                except Exception as e:
                    acc.fail(case, f"Peps(...) raised {type(e).__name__}: {e}")
                    continue
                acc.transitions += 1
                acc.states += 1
                msg = None
                if ok != unique_ok:
                    msg = f"Peps constructor {'accepted' if ok else 'rejected'} a {'non-' if not unique_ok else ''}unique assignment {assign} on {name}"
                elif ok:
                    for s, v in cells.items():
                        if psi[s] is not tens[v]:
                            msg = f"Peps[{s}] is not the tensor assigned to that site ({assign} on {name})"
                _eval(acc, case, msg)
        psi = fpeps.Peps(G, tensors=tens[0])
        if any(psi[s] is not tens[0] for s in G.sites()):
            acc.fail({'kind': 'peps_ctor', 'geo': name, 'form': 'single'}, "Peps(G, tensors=T) does not place T on every site")
    acc.sample({'kind': 'peps_ctor', 'geo': 'checker', 'assign': [0, 1, 1, 0], 'form': 'list'})


def replay(case):
    k = case['kind']
    if k in ('square', 'checkerboard', 'triangular', 'unitcell'):
        m = geometry_case(case)
        return [m] if m else []
    if k == 'accept':
        m, _ = accept_case(case['pattern'], case.get('as_dict', False))
        return [m] if m else []
    if k == 'container':
        G, ref, sites = container_setup(case['geo'])
        m, _ = container_run(G, ref, sites, case['hist'])
        return [m] if m else []
    acc = _Mini()
    if k.startswith('malformed'):
        run_malformed({}, acc)
    elif k == 'peps_ctor':
        run_container_peps({}, acc)
    elif k == 'equality':
        run_special({}, acc)
    return [v['msg'] for v in acc.violations][:3]


class _Mini:
    def __init__(self):
        self.violations, self.cnt = [], collections.Counter()
        self.evaluations = self.states = self.transitions = 0
        self.tier, self.seed = 'quick', 0
        self.nontrivial, self.outcomes = set(), set()

    def ev(self, *a, **k):
        pass

    def fail(self, case, msg, key=None):
        self.violations.append({'case': case, 'msg': msg})

    def sample(self, c):
        pass

    def check_time(self):
        pass


def finalize(summary, tier):
    errs = []
    c = summary['cnt']
    if c.get('geometries', 0) < 200 or c.get('patterns_invalid', 0) < 1000 or c.get('patterns_valid', 0) < 50:
        errs.append(f"vacuity: {dict(c)}")
    if summary['states'] < 200:
        errs.append(f"vacuity: container states {summary['states']}")
    return errs
