"""
C04 - Factorisations reconstruct the input with the promised structure.
Exhaustive product enumeration: tensors (generic and integer data, real/complex, charged, rectangular sectors, lazy,
harness-fused) x every ordered bipartition x sU/sQ x nU x Uaxis/Vaxis/Qaxis/Raxis x fix_signs, for svd, qr, eigh, eig.
"""
import itertools

import numpy as np
import yastn

from vmc.gen import configs as GC, legs as GL, tensors as GT
from vmc.models import dense as MD, groups as G
from . import _tcommon as TC

PROPERTY_ID = 'C04'
LEVEL = 'exploration'
RULE = ("product enumeration over (symmetry, dtype, tensor descriptor, data kind, lazy variant, factorisation, ordered "
        "bipartition, signature/charge-placement/axis options); one case = one factorisation call with all structural and "
        "numerical clauses checked; non-trivial = input has >= 2 blocks; distinct by case hash")
ASSUMPTIONS = ["tolerances 1e-11 relative to the norm of the input", "fullrank LAPACK policies only",
               "R upper-triangular is asserted for rank-2 (matrix) inputs incl. harness-fused ones"]
BUDGET = {'quick': 170, 'thorough': 1200}
TOL = 2e-11
FUSE_FIRST = ('hard', 'meta', 'metaL', 'metaR')


def bipartitions(r, tier):
    out = []
    for k in range(1, r):
        for L in itertools.permutations(range(r), k):
            rest = [i for i in range(r) if i not in L]
            Rs = list(itertools.permutations(rest))
            if tier == 'quick' and r >= 4:
                if list(L) != sorted(L) and list(L) != sorted(L, reverse=True):
                    continue
                Rs = [Rs[0], Rs[-1]] if len(Rs) > 1 else Rs
            for R in Rs:
                out.append((list(L), list(R)))
    return out


def pool(sym, tier):
    ms = GL.msize(sym, 2)
    nchs = range(min(3 if tier != 'quick' else 2, len(GL.CHARGES[sym])))
    for r in ((2, 3) if tier == 'quick' else (2, 3, 4)):
        sigs = {2: [[1, -1], [1, 1], [-1, 1]], 3: [[1, -1, 1], [-1, -1, 1]], 4: [[1, 1, -1, -1]]}[r]
        for sig in sigs:
            ml = [[i % ms for i in range(r)]] + ([[0] * r, [ms - 1] + [0] * (r - 1)] if ms > 1 else [])
            for m in ml:
                for n in nchs:
                    for drop in (None, [0]):
                        vs = [['fresh'], ['lazy', list(range(r))[::-1]]]
                        if r == 3:
                            vs.append(['lazy', [1, 2, 0]])
                        for var in vs:
                            yield {'s': sig, 'm': m, 'n': n, 'drop': drop, 'var': var}
    if tier == 'quick':      # one rank-4 family also in quick (2|2 splits)
        yield {'s': [1, 1, -1, -1], 'm': [i % ms for i in range(4)], 'n': min(1, len(GL.CHARGES[sym]) - 1), 'drop': None,
               'var': ['lazy', [3, 2, 1, 0]]}


def groups(tier, seed):
    gs = []
    for sym in GC.SYMS:
        for dt in ('float64', 'complex128'):
            for fac in ('svd', 'qr', 'eigh', 'eig'):
                for data in (('generic', 'integer') if fac in ('svd', 'qr') else ('generic',)):
                    gs.append({'sym': sym, 'dtype': dt, 'fac': fac, 'data': data, 'level': 1})
    return gs


def run_group(g, acc):
    sym = g['sym']
    cfg = GC.make(sym, dtype=g['dtype'])
    fac = g['fac']
    for case in cases(g, acc.tier):
        acc.check_time()
        case.update(sym=sym, dtype=g['dtype'], fac=fac, data=g['data'])
        st, msg, nb = run_case(case, cfg, acc.seed)
        if st == 'skip':
            continue
        acc.ev(repr(sorted(case.items())), nb >= 2 and st == 'ok', (fac, st, case.get('nU'), case.get('sU')))
        acc.cnt[fac + '_' + st] += 1
        if st == 'viol':
            acc.fail(case, msg)
        elif acc.evaluations % 1501 == 0:
            acc.sample(case)


def cases(g, tier):
    sym, fac = g['sym'], g['fac']
    if fac in ('svd', 'qr'):
        for td in pool(sym, tier):
            r = len(td['s'])
            for L, R in bipartitions(r, tier):
                if r == 4 and tier == 'quick' and len(L) != 2:
                    continue
                for sU in (1, -1):
                    if fac == 'svd':
                        for nU in (True, False):
                            axs = [(-1, 0)]
                            if td['var'][0] == 'fresh':
                                axs += [(0, -1), (len(L) // 2, len(R)), (-2, 1)] if len(L) >= 1 else []
                            for Ua, Va in axs:
                                for fs in ((False, True) if (Ua, Va) == (-1, 0) and nU else (False,)):
                                    yield {'td': td, 'axes': [L, R], 'sU': sU, 'nU': nU, 'Uaxis': Ua, 'Vaxis': Va, 'fix_signs': fs}
                        for ff in FUSE_FIRST:
                            if (ff == 'metaL' and len(L) < 2) or (ff == 'metaR' and len(R) < 2):
                                continue
                            yield {'td': td, 'axes': [L, R], 'sU': sU, 'fuse_first': ff, 'nU': ff != 'metaR'}
                    else:
                        axs = [(-1, 0)] + ([(0, -1), (len(L) // 2, len(R))] if td['var'][0] == 'fresh' else [])
                        for Qa, Ra in axs:
                            yield {'td': td, 'axes': [L, R], 'sU': sU, 'Uaxis': Qa, 'Vaxis': Ra}
                        for ff in FUSE_FIRST:
                            if (ff == 'metaL' and len(L) < 2) or (ff == 'metaR' and len(R) < 2):
                                continue
                            yield {'td': td, 'axes': [L, R], 'sU': sU, 'fuse_first': ff}
    else:
        ms = GL.msize(sym, 3)
        for m in itertools.product(range(ms), repeat=2):
            for half in (1, 2):
                if half == 2 and tier == 'quick' and m[0] > m[1]:
                    continue
                for s0 in (1, -1):
                    for drop in (None, [1]):
                        for var in (['fresh'], ['lazy', list(range(2 * half))[::-1]] if half == 1 else ['lazy', [2, 3, 0, 1]]):
                            for sU in (1, -1):
                                whiches = ('SR', 'LR', 'LM', 'SM') if fac == 'eigh' else ('LM', 'SR')
                                for which in whiches:
                                    for Ua in ((-1, 0) if var[0] == 'fresh' else (-1,)):
                                        yield {'m': list(m[:half]), 's0': s0, 'half': half, 'drop': drop, 'var': var, 'sU': sU,
                                               'which': which, 'Uaxis': Ua}
                                    if half == 2 and which in ('LM', 'SR'):
                                        yield {'m': list(m[:half]), 's0': s0, 'half': half, 'drop': drop, 'var': var, 'sU': sU,
                                               'which': which, 'Uaxis': -1, 'metaL': True}


def new_leg_reference(mods, b, L, R, s_new, n_side):
    """
    expected sectors of the connecting leg: {charge: min(rowdim, coldim)} from the blocks actually present.
    s_new: signature of the new leg in the LEFT factor; n_side: total charge carried by the left factor.
    """
    from vmc.props._tcommon import present_mask  # noqa
    keys = MD.allowed_keys(mods, b.spaces, b.s, b.n)
    drop = b.td.get('drop')
    if drop and keys:
        dd = {d % len(keys) for d in drop}
        keys = [k for i, k in enumerate(keys) if i not in dd]
    classes = {}
    for key in keys:
        tl = tuple(key[i] for i in L)
        tr = tuple(key[i] for i in R)
        cl = G.add(mods, tl, [b.s[i] for i in L]) if L else G.zero(mods)
        rows, cols = classes.setdefault(cl, (set(), set()))
        rows.add(tl)
        cols.add(tr)
    out = {}
    for cl, (rows, cols) in classes.items():
        rd = sum(int(np.prod([b.spaces[i][t] for i, t in zip(L, tl)])) for tl in rows)
        cd = sum(int(np.prod([b.spaces[i][t] for i, t in zip(R, tr)])) for tr in cols)
        # left factor: cl + s_new * t_new = n_side  ->  t_new = s_new * (n_side - cl)
        tn = G.add(mods, [n_side, cl], (1, -1), s_new)
        out[tn] = min(rd, cd)
    return out


def _identity_check(M, what):
    """M: rank-2 yastn tensor that should be the identity on its (own) leg"""
    d = M.to_numpy()
    if d.shape[0] != d.shape[1] or not np.allclose(d, np.eye(d.shape[0]), atol=TOL * 10, rtol=0):
        return f"{what} is not the identity (max deviation {np.max(np.abs(d - np.eye(d.shape[0]))) if d.shape[0] == d.shape[1] else d.shape})"
    return None


def _diag_blocks(S):
    leg = S.get_legs(0)
    return {t: np.asarray(S[t + t]) for t in leg.t}


def run_case(case, cfg, seed):
    sym = case['sym']
    mods = G.moduli(sym)
    fac = case['fac']
    z = G.zero(mods)
    try:
        if fac in ('svd', 'qr'):
            b = GT.build(cfg, sym, case['td'], seed, generic=(case['data'] == 'generic'))
            L, R = case['axes']
            sU = case['sU']
            x = b.x
            A = np.transpose(b.A, L + R)
            sp = [b.spaces[i] for i in L + R]
            sg = tuple(b.s[i] for i in L + R)
            scale = max(1.0, float(np.linalg.norm(b.A)))
            fused = case.get('fuse_first')
            unf = None
            if fused in ('hard', 'meta'):
                xm = x.fuse_legs(axes=(tuple(L), tuple(R)), mode=fused)
                axes, unf = (0, 1), (0, 1)
            elif fused == 'metaL':
                xm = x.fuse_legs(axes=(tuple(L),) + tuple(R), mode='meta')
                axes, unf = (0, tuple(range(1, 1 + len(R)))), (0,)
            elif fused == 'metaR':
                xm = x.fuse_legs(axes=tuple(L) + (tuple(R),), mode='meta')
                axes, unf = (tuple(range(len(L))), len(L)), (len(L),)
            else:
                xm, axes = x, (tuple(L), tuple(R))
            if fac == 'svd':
                nU = case.get('nU', True)
                Ua, Va = case.get('Uaxis', -1), case.get('Vaxis', 0)
                st, res = TC.call(lambda: yastn.svd(xm, axes=axes, sU=sU, nU=nU, Uaxis=Ua, Vaxis=Va,
                                                    fix_signs=case.get('fix_signs', False)))
                if st != 'ok':
                    return 'viol', f"svd: unexpected {st}: {res}", b.nblocks
                U, S, V = res
                nl = 1 if fused in ('hard', 'meta', 'metaL') else len(L)
                nrr = 1 if fused in ('hard', 'meta', 'metaR') else len(R)
                if U.ndim != nl + 1 or V.ndim != nrr + 1:
                    return 'viol', f"svd: factor ranks {U.ndim}, {V.ndim}; expected {nl + 1}, {nrr + 1}", b.nblocks
                Up, Vp = U.moveaxis(Ua, -1), V.moveaxis(Va, 0)
                # structure
                lu, lv = U.get_legs(Ua % U.ndim), V.get_legs(Va % V.ndim)
                if lu.s != sU or lv.s != -sU:
                    return 'viol', f"svd: connecting leg signatures U:{lu.s} V:{lv.s}, requested sU={sU}", b.nblocks
                if tuple(U.n) != (tuple(b.n) if nU else z) or tuple(V.n) != (z if nU else tuple(b.n)) or tuple(S.n) != z:
                    return 'viol', f"svd(nU={nU}): charges U.n={U.n} S.n={S.n} V.n={V.n} for a.n={b.n}", b.nblocks
                if not S.isdiag or S.yastn_dtype not in ('float64', 'float32'):
                    return 'viol', f"svd: S diagonal={S.isdiag} dtype={S.yastn_dtype}", b.nblocks
                exp_leg = new_leg_reference(mods, b, L, R, sU, tuple(b.n) if nU else z)
                if not fused and lu.tD != dict(sorted(exp_leg.items())):
                    return 'viol', f"svd: connecting leg sectors {lu.tD}, expected min(rows, cols) per sector {dict(sorted(exp_leg.items()))}", b.nblocks
                if lv.tD != lu.tD or S.get_legs(0).tD != lu.tD:
                    return 'viol', "svd: connecting legs of U, S, V differ", b.nblocks
                for t, v in _diag_blocks(S).items():
                    if np.any(v < 0) or np.any(np.diff(v) > 1e-13 * scale):
                        return 'viol', f"svd: singular values in sector {t} not non-negative/non-increasing: {v}", b.nblocks
                # isometries
                m = _identity_check(yastn.tensordot(Up, Up, axes=(tuple(range(nl)), tuple(range(nl))), conj=(1, 0)), "U^dag U")
                if m:
                    return 'viol', 'svd: ' + m, b.nblocks
                nr = Vp.ndim - 1
                m = _identity_check(yastn.tensordot(Vp, Vp, axes=(tuple(range(1, nr + 1)), tuple(range(1, nr + 1))), conj=(0, 1)), "V V^dag")
                if m:
                    return 'viol', 'svd: ' + m, b.nblocks
                rec = Up @ S @ Vp
                if fused:
                    rec = rec.unfuse_legs(axes=unf)
                m = TC.check_result(rec, A, sp, sg, b.n, tol=TOL, exports=False, what='U S V')
                if m:
                    return 'viol', 'svd: ' + m, b.nblocks
                S2 = yastn.svd(xm, axes=axes, sU=sU, nU=nU, compute_uv=False)
                d1, d2 = _diag_blocks(S), _diag_blocks(S2)
                if set(d1) != set(d2) or any(not np.allclose(d1[t], d2[t], atol=1e-12 * scale, rtol=0) for t in d1):
                    return 'viol', "svd(compute_uv=False) returns different singular values", b.nblocks
                return 'ok', None, b.nblocks
            # qr
            Qa, Ra = case.get('Uaxis', -1), case.get('Vaxis', 0)
            st, res = TC.call(lambda: yastn.qr(xm, axes=axes, sQ=sU, Qaxis=Qa, Raxis=Ra))
            if st != 'ok':
                return 'viol', f"qr: unexpected {st}: {res}", b.nblocks
            Q, Rr = res
            nl = 1 if fused in ('hard', 'meta', 'metaL') else len(L)
            nrr = 1 if fused in ('hard', 'meta', 'metaR') else len(R)
            if Q.ndim != nl + 1 or Rr.ndim != nrr + 1:
                return 'viol', f"qr: factor ranks {Q.ndim}, {Rr.ndim}; expected {nl + 1}, {nrr + 1}", b.nblocks
            Qp, Rp = Q.moveaxis(Qa, -1), Rr.moveaxis(Ra, 0)
            lq, lr = Q.get_legs(Qa % Q.ndim), Rr.get_legs(Ra % Rr.ndim)
            if lq.s != sU or lr.s != -sU:
                return 'viol', f"qr: connecting leg signatures Q:{lq.s} R:{lr.s}, requested sQ={sU}", b.nblocks
            if tuple(Q.n) != tuple(b.n) or tuple(Rr.n) != z:
                return 'viol', f"qr: charges Q.n={Q.n} R.n={Rr.n} for a.n={b.n}", b.nblocks
            exp_leg = new_leg_reference(mods, b, L, R, sU, tuple(b.n))
            if not fused and lq.tD != dict(sorted(exp_leg.items())):
                return 'viol', f"qr: connecting leg sectors {lq.tD}, expected {dict(sorted(exp_leg.items()))}", b.nblocks
            m = _identity_check(yastn.tensordot(Qp, Qp, axes=(tuple(range(nl)), tuple(range(nl))), conj=(1, 0)), "Q^dag Q")
            if m:
                return 'viol', 'qr: ' + m, b.nblocks
            rec = Qp @ Rp
            if fused:
                rec = rec.unfuse_legs(axes=unf)
            m = TC.check_result(rec, A, sp, sg, b.n, tol=TOL, exports=False, what='Q R')
            if m:
                return 'viol', 'qr: ' + m, b.nblocks
            if Rp.ndim == 2 and (fused == 'hard' or (len(L) == 1 and len(R) == 1)):
                lg = Rp.get_legs()
                for t0 in lg[0].t:
                    for t1 in lg[1].t:
                        try:
                            blk = np.asarray(Rp[t0 + t1])
                        except yastn.YastnError:
                            continue
                        if np.any(np.abs(np.tril(blk, -1)) > 1e-12 * scale):
                            return 'viol', f"qr: R block {t0 + t1} is not upper-triangular", b.nblocks
                        dg = np.diag(blk)
                        if np.any(np.abs(dg.imag) > 1e-12 * scale) or np.any(dg.real < -1e-12 * scale):
                            return 'viol', f"qr: R block {t0 + t1} has diagonal {dg} (must be real non-negative)", b.nblocks
            return 'ok', None, b.nblocks
        # eigh / eig : operator with legs (l_1..l_h, l_1*..l_h*), zero charge
        half = case['half']
        s0 = case['s0']
        sig = [s0 * (-1) ** i for i in range(half)]
        td = {'s': sig + [-s for s in sig], 'm': case['m'] + case['m'], 'n': 0, 'drop': case['drop'], 'var': case['var'], 'id': 'y'}
        b = GT.build(cfg, sym, td, seed, generic=True)
        y = b.x
        perm = tuple(range(half, 2 * half)) + tuple(range(half))
        axes = (tuple(range(half)), tuple(range(half, 2 * half)))
        mf = case.get('metaL') and half == 2
        scale = max(1.0, float(np.linalg.norm(b.A)))
        sU, Ua = case['sU'], case['Uaxis']
        if fac == 'eigh':
            h = y + y.transpose(perm).conj()
            H = b.A + np.transpose(b.A, perm).conj()
            hm, axm = h, axes
            if mf:
                hm, axm = h.fuse_legs(axes=((0, 1), 2, 3), mode='meta'), (0, (1, 2))
            st, res = TC.call(lambda: yastn.eigh(hm, axes=axm, sU=sU, Uaxis=Ua, which=case['which']))
            if st != 'ok':
                return 'viol', f"eigh: unexpected {st}: {res}", b.nblocks
            S, U = res
            if mf:
                if U.ndim != 2:
                    return 'viol', f"eigh on an input with meta-fused row legs: U has rank {U.ndim}, expected 2", b.nblocks
                U = U.moveaxis(Ua, -1).unfuse_legs(axes=0).moveaxis(-1, Ua)
            Up = U.moveaxis(Ua, -1)
            lu = U.get_legs(Ua % U.ndim)
            if lu.s != sU or tuple(U.n) != z or tuple(S.n) != z or not S.isdiag:
                return 'viol', f"eigh: new leg signature {lu.s} (sU={sU}), U.n={U.n}, S.n={S.n}", b.nblocks
            for t, v in _diag_blocks(S).items():
                if np.iscomplexobj(v) and np.any(np.abs(v.imag) > 0):
                    return 'viol', "eigh: complex eigenvalues", b.nblocks
                key = {'SR': v, 'LR': -v, 'LM': -np.abs(v), 'SM': np.abs(v)}[case['which']]
                if np.any(np.diff(key) < -1e-12 * scale):
                    return 'viol', f"eigh(which={case['which']}): eigenvalues in sector {t} not ordered: {v}", b.nblocks
            m = _identity_check(yastn.tensordot(Up, Up, axes=(tuple(range(half)), tuple(range(half))), conj=(1, 0)), "U^dag U")
            if m:
                return 'viol', 'eigh: ' + m, b.nblocks
            rec = yastn.tensordot(Up @ S, Up, axes=(half, half), conj=(0, 1))
            m = TC.check_result(rec, H, b.spaces, b.s, z, tol=TOL, exports=False, what='U S U^dag')
            if m:
                return 'viol', 'eigh: ' + m, b.nblocks
            # eigenvalues agree with numpy per whole matrix
            Hm = H.reshape(int(np.prod(H.shape[:half])), -1)
            ev = np.sort(np.linalg.eigvalsh(Hm)) if Hm.size else np.array([])
            mine = np.sort(np.concatenate([v.real for v in _diag_blocks(S).values()])) if _diag_blocks(S) else np.array([])
            nz = ev[np.abs(ev) > 1e-10 * scale]
            mz = mine[np.abs(mine) > 1e-10 * scale]
            if len(nz) != len(mz) or not np.allclose(nz, mz, atol=1e-9 * scale, rtol=0):
                return 'viol', f"eigh: spectrum {mz} differs from numpy.linalg.eigvalsh {nz}", b.nblocks
            return 'ok', None, b.nblocks
        # eig
        ym, axm = y, axes
        if mf:
            ym, axm = y.fuse_legs(axes=((0, 1), 2, 3), mode='meta'), (0, (1, 2))
        st, res = TC.call(lambda: yastn.eig(ym, axes=axm, sU=sU, Uaxis=Ua, which=case['which']))
        if st == 'yerr':
            own = b.own
            if any(own[i] != own[i + half] for i in range(half)):
                return 'rejected', None, b.nblocks     # effective blocks are not square
            return 'viol', f"eig: unexpected YastnError {res}", b.nblocks
        if st != 'ok':
            return 'viol', f"eig: unexpected {st}: {res}", b.nblocks
        U, S, V = res
        if mf:
            if U.ndim != 2 or V.ndim != 3:
                return 'viol', (f"eig on an input with meta-fused row legs and plain column legs: U, V have ranks {U.ndim}, "
                                f"{V.ndim}; expected 2, 3"), b.nblocks
            U = U.moveaxis(Ua, -1).unfuse_legs(axes=0).moveaxis(-1, Ua)
        Up = U.moveaxis(Ua, -1)
        lu = U.get_legs(Ua % U.ndim)
        if lu.s != sU or V.get_legs(0).s != -sU:
            return 'viol', f"eig: connecting leg signatures U:{lu.s} V:{V.get_legs(0).s}, sU={sU}", b.nblocks
        m = _identity_check(yastn.tensordot(V, Up, axes=(tuple(range(1, half + 1)), tuple(range(half)))), "V U")
        if m:
            return 'viol', 'eig: ' + m, b.nblocks
        rec = Up @ S @ V
        m = TC.check_result(rec, b.A.astype(np.complex128), b.spaces, b.s, z, tol=1e-9, exports=False, what='U S V')
        if m:
            return 'viol', 'eig: ' + m, b.nblocks
        for t, v in _diag_blocks(S).items():
            key = {'SR': v.real, 'LR': -v.real, 'LM': -np.abs(v), 'SM': np.abs(v)}[case['which']]
            if np.any(np.diff(key) < -1e-10 * scale):
                return 'viol', f"eig(which={case['which']}): eigenvalues in sector {t} not ordered: {v}", b.nblocks
        return 'ok', None, b.nblocks
    except MD.ShadowError as e:
        return 'viol', f"{fac}: {e}", 0


def replay(case):
    cfg = GC.make(case['sym'], dtype=case['dtype'])
    st, msg, _ = run_case(case, cfg, case.get('seed', 0))
    return [msg] if st == 'viol' else []


def finalize(summary, tier):
    errs = []
    for k in ('svd_ok', 'qr_ok', 'eigh_ok', 'eig_ok'):
        if summary['cnt'].get(k, 0) < 200:
            errs.append(f"vacuity: {k} = {summary['cnt'].get(k, 0)}")
    return errs
