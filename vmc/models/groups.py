"""
Reference group laws as plain tuple arithmetic, independent of yastn.sym.*.fuse.
A symmetry is described by its tuple of moduli: 0 for a U(1) factor, k for a Z_k factor.
"""
import itertools

MODULI = {
    'dense': (),
    'Z2': (2,),
    'Z3': (3,),
    'U1': (0,),
    'U1xU1': (0, 0),
    'Z2xU1': (2, 0),
    'U1xU1xZ2': (0, 0, 2),
}


def moduli(sym):
    sid = sym if isinstance(sym, str) else sym.SYM_ID
    sid = sid.replace('(', '').replace(')', '')
    return MODULI[sid]


def canon(mods, t):
    return tuple((x % m) if m else x for x, m in zip(t, mods))


def is_canon(mods, t):
    return tuple(t) == canon(mods, t)


def add(mods, charges, signatures=None, new_signature=1):
    """new_signature * sum_i signatures[i] * charges[i], reduced to the canonical range."""
    if signatures is None:
        signatures = (1,) * len(charges)
    acc = [0] * len(mods)
    for t, s in zip(charges, signatures):
        for k in range(len(mods)):
            acc[k] += s * t[k]
    return canon(mods, tuple(new_signature * x for x in acc))


def neg(mods, t):
    return canon(mods, tuple(-x for x in t))


def zero(mods):
    return (0,) * len(mods)


def fss_tuple(fermionic, nsym):
    if fermionic is True:
        return (True,) * nsym
    if not fermionic:
        return (False,) * nsym
    return tuple(bool(x) for x in fermionic)


def parity(fss, t):
    """fermionic parity (0/1) of charge t."""
    return sum(x for x, f in zip(t, fss) if f) % 2


def swap_sign(fss, t0, t1):
    """sign of exchanging charges t0 and t1: (-1)^{sum_f t0_f t1_f} over fermionic components."""
    return 1 - 2 * (sum(a * b for a, b, f in zip(t0, t1, fss) if f) % 2)


def self_check():
    """group axioms on the reference itself, over a small box"""
    for sid, mods in MODULI.items():
        vals = [range(m) if m else range(-2, 3) for m in mods]
        box = list(itertools.product(*vals))
        z = zero(mods)
        for a in box:
            assert add(mods, [a, z]) == a
            assert add(mods, [a, neg(mods, a)]) == z
            assert add(mods, [a], (1,), -1) == neg(mods, a)
            for b in box:
                assert add(mods, [a, b]) == add(mods, [b, a])
                if len(box) <= 30:
                    for c in box:
                        assert add(mods, [add(mods, [a, b]), c]) == add(mods, [a, add(mods, [b, c])])
    return True
