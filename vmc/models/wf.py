"""
Independent well-formedness predicate for a yastn.Tensor, re-derived from the data-structure description in
Tensor.__init__ / _auxiliary (struct, slices, trans, mfs, hfs) and the reference group law.  It is stricter and
independent of Tensor.is_consistent().  Returns None or a message.
"""
import numpy as np
import yastn

from . import groups as G
from . import dense as MD


def _tree_ok(tree):
    """fusion tree in yastn's prefix encoding: node value = number of leaves below; leaf = 1."""
    def parse(pos):
        v = tree[pos]
        if v == 1:
            return pos + 1, 1
        leaves, p = 0, pos + 1
        while leaves < v:
            if p >= len(tree):
                return None
            r = parse(p)
            if r is None:
                return None
            p, l = r
            leaves += l
        if leaves != v:
            return None
        return p, v
    if len(tree) == 0:
        return False
    r = parse(0)
    return r is not None and r[0] == len(tree)


def wf(x, dense_check=True):
    cfg = x.config
    try:
        mods = G.moduli(cfg.sym)
    except KeyError:
        return None
    nsym = len(mods)
    st = x.struct
    nd = len(st.s)
    if not isinstance(st.s, tuple) or not all(type(s) is int and s in (1, -1) for s in st.s):
        return f"signature {st.s!r} is not a tuple of +-1 python ints"
    if not isinstance(st.n, tuple) or len(st.n) != nsym or not all(type(v) is int for v in st.n):
        return f"total charge {st.n!r} is not a tuple of {nsym} python ints"
    if not G.is_canon(mods, st.n):
        return f"total charge {st.n} outside the canonical range"
    if type(st.diag) is not bool:
        return "struct.diag is not bool"
    if st.diag and (nd != 2 or st.s[0] != -st.s[1] or any(st.n)):
        return f"diagonal tensor with signature {st.s} / charge {st.n}"
    if len(st.t) != len(st.D) or len(st.t) != len(x.slices):
        return "numbers of block charges, block shapes and slices differ"
    lo = 0
    prev = None
    legsD = [dict() for _ in range(nd)]
    for t, D, sl in zip(st.t, st.D, x.slices):
        if not isinstance(t, tuple) or len(t) != nd * nsym or not all(type(v) is int for v in t):
            return f"block charge {t!r} malformed"
        if not isinstance(D, tuple) or len(D) != nd or not all(type(v) is int and v > 0 for v in D):
            return f"block shape {D!r} malformed (must be positive python ints)"
        if prev is not None and not prev < t:
            return f"blocks not strictly sorted / unique: {prev} then {t}"
        prev = t
        ts = [t[i * nsym:(i + 1) * nsym] for i in range(nd)]
        if any(not G.is_canon(mods, c) for c in ts):
            return f"block {t} carries a non-canonical charge"
        if nsym and G.add(mods, ts, st.s) != st.n:
            return f"block {t} violates the selection rule: charges combine to {G.add(mods, ts, st.s)}, tensor charge {st.n}"
        if st.diag and (ts[0] != ts[1] or D[0] != D[1]):
            return f"diagonal block {t} {D} is not square/equal-charge"
        Dp = D[0] if st.diag else int(np.prod(D, dtype=np.int64))
        if sl.Dp != Dp or tuple(sl.D) != D:
            return f"slice {sl} inconsistent with block shape {D}"
        if len(sl.slcs) != 1 or tuple(sl.slcs[0]) != (lo, lo + Dp):
            return f"slices do not tile the storage contiguously: {sl.slcs} expected {(lo, lo + Dp)}"
        lo += Dp
        for i in range(nd):
            if legsD[i].setdefault(ts[i], D[i]) != D[i]:
                return f"leg {i} charge {ts[i]} has two dimensions {legsD[i][ts[i]]} and {D[i]}"
    if st.size != lo or type(st.size) is not int:
        return f"struct.size {st.size} != sum of block sizes {lo}"
    data = x._data
    if not isinstance(data, np.ndarray) or data.ndim != 1 or data.shape[0] != lo:
        return f"storage has shape {getattr(data, 'shape', None)}, expected ({lo},)"
    tr = tuple(x.trans)
    if sorted(tr) != list(range(nd)):
        return f"trans {tr} is not a permutation of range({nd})"
    if not isinstance(x.mfs, tuple) or sum(mf[0] for mf in x.mfs) != nd or not all(_tree_ok(tuple(mf)) for mf in x.mfs):
        return f"meta-fusion trees {x.mfs} do not cover {nd} native legs"
    if len(x.hfs) != nd:
        return f"{len(x.hfs)} hard-fusion records for {nd} native legs"
    for i, hf in enumerate(x.hfs):
        if hf.s[0] != st.s[i]:
            return f"hfs[{i}].s[0]={hf.s[0]} differs from leg signature {st.s[i]}"
        L = len(hf.tree)
        if not (L == len(hf.op) == len(hf.s) == len(hf.t) + 1 == len(hf.D) + 1):
            return f"hfs[{i}] arity mismatch: tree {hf.tree} op {hf.op} s {hf.s} t {len(hf.t)} D {len(hf.D)}"
        if not _tree_ok(tuple(hf.tree)):
            return f"hfs[{i}].tree {hf.tree} is not a valid fusion tree"
        for v, o in zip(hf.tree, hf.op):
            if (v > 1 and o not in 'ps') or (v == 1 and o != 'o'):
                return f"hfs[{i}] op string {hf.op} inconsistent with tree {hf.tree}"
        for tt, DD in zip(hf.t, hf.D):
            if len(tt) != len(DD) or any(d <= 0 for d in DD):
                return f"hfs[{i}] sub-leg charges/dimensions malformed"
    if st.diag and any(hf.tree != (1,) for hf in x.hfs):
        return "diagonal tensor with fused legs"
    # public views agree with the structure
    try:
        legs = x.get_legs(native=True) if nd else ()
    except Exception as e:
        return f"get_legs raised {type(e).__name__}: {e}"
    for i, leg in enumerate(legs):
        ni = tr[i]
        if dict(zip(leg.t, leg.D)) != dict(sorted(legsD[ni].items())) or leg.s != st.s[ni]:
            return f"get_legs(native)[{i}] = {leg} disagrees with the blocks"
        # fusion history reproduces the sector dimensions (product legs), via the public leg API
        if leg.is_fused():
            m = _fused_dims(leg)
            if m:
                return f"leg {i}: {m}"
    if dense_check and nd and lo:
        try:
            E = x.to_numpy(native=True)
        except Exception as e:
            return f"to_numpy raised {type(e).__name__}: {e}"
        own = [dict(zip(l.t, l.D)) for l in legs]
        if E.shape != tuple(sum(o.values()) for o in own):
            return f"to_numpy shape {E.shape} differs from leg dimensions"
        if not st.diag:
            mask = MD.selection_mask(mods, own, tuple(l.s for l in legs), st.n)
            if np.any(E[~mask] != 0):
                return "dense element outside the symmetry-allowed sectors is non-zero"
        else:
            if np.any(E[~np.eye(E.shape[0], dtype=bool)] != 0):
                return "off-diagonal element of a diagonal tensor is non-zero"
    return None


def _fused_dims(leg):
    """dimensions of a hard-fused leg follow from its recorded sub-legs"""
    hist = leg.history()
    try:
        if hist[0] == 'p':
            subs = yastn.undo_leg_product(leg)
            full = yastn.leg_product(*subs)
            fd = dict(zip(full.t, full.D))
            for t, d in zip(leg.t, leg.D):
                if fd.get(t) != d:
                    return (f"fused sector {t} has dimension {d} but its recorded sub-legs "
                            f"{[(l.t, l.D) for l in subs]} give {fd.get(t)}")
    except yastn.YastnError as e:
        return f"fusion history unreadable: {e}"
    return None
