"""
Jordan-Wigner reference: dense many-site operators built from local dense matrices, the leg charges and the
fermionic flags of the configuration.   JW(O, i) = (prod_{j before i} P_j^{n_O}) (x) O (x) 1,
P^{n} = diag((-1)^{sum_f t_f n_f}) over fermionic components f.  Independent of yastn's swap_gate/fkron code.
"""
import numpy as np

from . import groups as G


def charges_of(space_leg):
    out = []
    for t, D in zip(space_leg.t, space_leg.D):
        out += [tuple(t)] * D
    return out


def fss_of(cfg):
    return G.fss_tuple(cfg.fermionic, cfg.sym.NSYM)


def string_op(space_leg, charge, cfg):
    fss = fss_of(cfg)
    d = [1 - 2 * (sum(t[i] * charge[i] for i in range(len(fss)) if fss[i]) % 2) for t in charges_of(space_leg)]
    return np.diag(np.array(d, dtype=np.float64))


def dense_op(op, space_leg):
    return op.to_numpy(legs={0: space_leg, 1: space_leg.conj()})


def jw(op, site, spaces, cfg, order=None):
    """embedding of local op at `site`; spaces: list of local legs; order[pos] = rank of pos in the fermionic order"""
    N = len(spaces)
    if order is None:
        order = list(range(N))
    mats = []
    for j in range(N):
        if j == site:
            mats.append(dense_op(op, spaces[j]))
        elif order[j] < order[site]:
            mats.append(string_op(spaces[j], op.n, cfg))
        else:
            mats.append(np.eye(sum(spaces[j].D)))
    M = mats[0]
    for m in mats[1:]:
        M = np.kron(M, m)
    return M


def product(ops_sites, spaces, cfg, order=None):
    """ordered product O_0(site_0) O_1(site_1) ... (the last one acts first on a ket)"""
    dim = int(np.prod([sum(s.D) for s in spaces]))
    M = np.eye(dim)
    for op, site in ops_sites:
        M = M @ jw(op, site, spaces, cfg, order)
    return M


def mpo_like_to_matrix(T, spaces):
    """tensor with legs (ket0, bra0, ket1, bra1, ...) -> matrix over the product basis of `spaces`"""
    N = len(spaces)
    legs = {}
    for i in range(N):
        legs[2 * i] = spaces[i]
        legs[2 * i + 1] = spaces[i].conj()
    A = T.to_numpy(legs=legs)
    d = int(np.prod([sum(s.D) for s in spaces]))
    return A.transpose(list(range(0, 2 * N, 2)) + list(range(1, 2 * N, 2))).reshape(d, d)


def car_selfcheck(c, cp, space, cfg, N=3):
    """canonical anticommutation relations of the reference itself: {c_i, c_j^+} = delta_ij, {c_i, c_j} = 0"""
    spaces = [space] * N
    for i in range(N):
        for j in range(N):
            ci, cj, cpj = jw(c, i, spaces, cfg), jw(c, j, spaces, cfg), jw(cp, j, spaces, cfg)
            if np.abs(ci @ cpj + cpj @ ci - (np.eye(ci.shape[0]) if i == j else 0)).max() > 1e-13:
                return False
            if np.abs(ci @ cj + cj @ ci).max() > 1e-13:
                return False
    return True
