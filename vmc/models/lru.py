"""Dictionary model of functools.lru_cache (reference for C16)."""
import collections


def make_key(a, k):
    return (tuple(a), tuple(sorted(k.items())))


def split_key(key):
    a, k = key
    return a, dict(k)


class Model:
    def __init__(self, maxsize):
        self.maxsize = maxsize
        self.d = collections.OrderedDict()
        self.hits = 0
        self.misses = 0

    def access(self, key):
        """returns True for a hit"""
        if self.maxsize == 0:
            self.misses += 1
            return False
        if key in self.d:
            self.d.move_to_end(key)
            self.hits += 1
            return True
        self.misses += 1
        self.d[key] = True
        if self.maxsize is not None and len(self.d) > self.maxsize:
            self.d.popitem(last=False)
        return False

    def clear(self):
        self.d.clear()
        self.hits = self.misses = 0

    def keys(self):
        return list(self.d.keys())
