"""
Truncation as a two-stage maximal selection (reference model for C13).
stage 1, per sector t: keep the top min(D_block[t], #{v > tol_block[t] * max_t}) values;
stage 2, over the stage-1 survivors E: keep the top min(D_total, #{v in E : v > tol * max E}).
"""


def select(spec, D_total, D_block, tol, tol_block):
    """spec: {sector: [values]}, D_block/tol_block: {sector: limit}. returns (survivors per sector, kept values sorted desc)"""
    surv = {}
    for t, vals in spec.items():
        m = max(vals) if vals else 0
        cnt = sum(1 for v in vals if v > tol_block[t] * m)
        k = int(min(D_block[t], cnt))
        surv[t] = sorted(vals, reverse=True)[:k]
    E = [v for vs in surv.values() for v in vs]
    mE = max(E) if E else 0
    K = int(min(D_total, sum(1 for v in E if v > tol * mE)))
    return surv, sorted(E, reverse=True)[:K]
