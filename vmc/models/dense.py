"""
Dense shadow: the dense array of a yastn tensor assembled independently of to_numpy/to_dense, from block
access (x[key]) and get_legs(native=True) only, placed into *given* leg spaces.

A "space" is a dict {charge tuple: dim}; the dense index range of a charge is fixed by sorting charges.
All functions work at the level of native legs in logical order (meta-fusion ignored, a hard-fused leg is one
opaque leg).
"""
import itertools

import numpy as np
from yastn import YastnError

from . import groups as G


class ShadowError(Exception):
    """The tensor does not fit the expected spaces / is not readable consistently (a property violation)."""


def offsets(space):
    out, lo = {}, 0
    for t in sorted(space):
        out[t] = (lo, lo + space[t])
        lo += space[t]
    return out, lo


def space_of(leg):
    return dict(zip(leg.t, leg.D))


def native_spaces(x):
    return [space_of(l) for l in x.get_legs(native=True)] if x.ndim_n else []


def np_dtype(x):
    return np.complex128 if x.yastn_dtype in ('complex128',) else \
        (np.complex64 if x.yastn_dtype == 'complex64' else
         (np.float32 if x.yastn_dtype == 'float32' else (np.bool_ if x.yastn_dtype == 'bool' else np.float64)))


def dense(x, spaces=None, check_selection=True, return_own=False):
    """
    Dense array of x over `spaces` (list of {t: D} per native logical leg; default: x's own legs).
    Reads blocks through x[key] for every key allowed by x's own legs; raises ShadowError if x has sectors
    outside `spaces`, with other dimensions, or blocks violating the selection rule.
    """
    mods = G.moduli(x.config.sym)
    nsym = len(mods)
    rank = x.ndim_n
    own = native_spaces(x)
    if spaces is None:
        spaces = own
    if len(spaces) != rank:
        raise ShadowError(f"rank {rank} but {len(spaces)} expected spaces")
    for i, (o, sp) in enumerate(zip(own, spaces)):
        for t, d in o.items():
            if t not in sp:
                raise ShadowError(f"leg {i} has sector {t} outside the expected space {sorted(sp)}")
            if sp[t] != d:
                raise ShadowError(f"leg {i} sector {t} has dimension {d}, expected {sp[t]}")
    offs = [offsets(sp) for sp in spaces]
    shape = tuple(o[1] for o in offs)
    out = np.zeros(shape, dtype=np_dtype(x))
    if rank == 0:
        try:
            out[()] = np.asarray(x[()]).reshape(())
        except YastnError:
            pass
        return (out, own) if return_own else out
    sig = x.get_signature(native=True)
    n = tuple(x.n)
    nblocks = 0
    if x.isdiag:
        for t in own[0]:
            try:
                blk = np.asarray(x[t + t])
            except YastnError:
                continue
            nblocks += 1
            (l0, h0), (l1, h1) = offs[0][0][t], offs[1][0][t]
            if blk.ndim != 1 or h0 - l0 != blk.shape[0] or h1 - l1 != blk.shape[0]:
                raise ShadowError(f"diagonal block {t} has shape {blk.shape}")
            out[l0:h0, l1:h1] = np.diag(blk)
    else:
        for key in itertools.product(*[sorted(o) for o in own]):
            if nsym and G.add(mods, key, sig) != n:
                continue
            flat = tuple(c for t in key for c in t)
            try:
                blk = np.asarray(x[flat])
            except YastnError:
                continue
            nblocks += 1
            sl = tuple(slice(*offs[i][0][t]) for i, t in enumerate(key))
            exp_shape = tuple(spaces[i][t] for i, t in enumerate(key))
            if blk.shape != exp_shape:
                raise ShadowError(f"block {key} has shape {blk.shape}, expected {exp_shape}")
            out[sl] = blk
    if check_selection and nblocks != len(x.get_blocks_charge()):
        raise ShadowError(f"{len(x.get_blocks_charge())} stored blocks but only {nblocks} reachable through "
                          f"block access with keys allowed by legs {own}, signature {sig}, charge {n}")
    return (out, own) if return_own else out


def restrict(D, spaces, own):
    """sub-array of D (over `spaces`) on the sectors listed in `own`"""
    if D.ndim == 0:
        return D
    idx = []
    for sp, o in zip(spaces, own):
        offs, _ = offsets(sp)
        idx.append(np.array([i for t in sorted(o) for i in range(*offs[t])], dtype=np.int64))
    return D[np.ix_(*idx)]


def allowed_keys(mods, spaces, sig, n):
    """all block keys (tuples of charges) allowed by the selection rule, sorted"""
    nsym = len(mods)
    out = []
    for key in itertools.product(*[sorted(sp) for sp in spaces]):
        if not nsym or G.add(mods, key, sig) == tuple(n):
            out.append(key)
    return out


def selection_mask(mods, spaces, sig, n):
    """boolean array over the dense space: True where the selection rule allows a non-zero element"""
    offs = [offsets(sp) for sp in spaces]
    m = np.zeros(tuple(o[1] for o in offs), dtype=bool)
    for key in allowed_keys(mods, spaces, sig, n):
        m[tuple(slice(*offs[i][0][t]) for i, t in enumerate(key))] = True
    return m


def charge_vectors(space):
    """per dense index along a leg: its charge tuple"""
    out = []
    for t in sorted(space):
        out += [t] * space[t]
    return out


def embed(arr, spaces_from, spaces_to):
    """embed dense arr over spaces_from into the larger spaces_to (zeros elsewhere)."""
    offs_to = [offsets(sp) for sp in spaces_to]
    out = np.zeros(tuple(o[1] for o in offs_to), dtype=arr.dtype)
    idx = []
    for sf, (ot, _) in zip(spaces_from, offs_to):
        ii = []
        for t in sorted(sf):
            if t not in ot or ot[t][1] - ot[t][0] != sf[t]:
                raise ShadowError(f"cannot embed sector {t}")
            ii.extend(range(*ot[t]))
        idx.append(np.array(ii, dtype=np.int64))
    if arr.ndim == 0:
        return arr.copy()
    out[np.ix_(*idx)] = arr
    return out


def union(*spaces):
    out = {}
    for sp in spaces:
        for t, d in sp.items():
            if out.setdefault(t, d) != d:
                raise ShadowError(f"inconsistent dimensions for sector {t}")
    return out
