"""
Reference model of lattice geometries: the square lattice as integer pairs with explicit periods / label function.
A geometry is described by (Nx, Ny, px, py, ident) with px, py in {'o' (open), 'p' (periodic, finite), 'i' (infinite
tiling)} and ident(site) -> hashable class of the site-to-tensor identification.
"""

DIRS = {'tl': (-1, -1), 't': (-1, 0), 'tr': (-1, 1), 'l': (0, -1), 'r': (0, 1), 'bl': (1, -1), 'b': (1, 0), 'br': (1, 1)}


class Geo:
    def __init__(self, Nx, Ny, px, py, ident, kind):
        self.Nx, self.Ny, self.px, self.py, self.ident, self.kind = Nx, Ny, px, py, ident, kind

    def exists(self, s):
        x, y = s
        if self.px in 'op' and not 0 <= x < self.Nx:
            return False
        if self.py in 'op' and not 0 <= y < self.Ny:
            return False
        return True

    def nn(self, s, d):
        dx, dy = DIRS[d] if isinstance(d, str) else d
        x, y = s[0] + dx, s[1] + dy
        if self.px == 'o' and not 0 <= x < self.Nx:
            return None
        if self.py == 'o' and not 0 <= y < self.Ny:
            return None
        if self.px == 'p':
            x %= self.Nx
        if self.py == 'p':
            y %= self.Ny
        return (x, y)

    def window(self, margin=1):
        xs = range(self.Nx) if self.px in 'op' else range(-self.Nx - margin, 2 * self.Nx + margin + 1)
        ys = range(self.Ny) if self.py in 'op' else range(-self.Ny - margin, 2 * self.Ny + margin + 1)
        return [(x, y) for x in xs for y in ys]

    def f_before(self, s0, s1):
        """column-major order (the order in which sites() is documented/listed), reflexive"""
        return (s0[1], s0[0]) <= (s1[1], s1[0])


def square(Nx, Ny, boundary):
    px, py = {'infinite': 'ii', 'obc': 'oo', 'cylinder': 'po'}[boundary]

    def ident(s):
        x = s[0] % Nx if px in 'ip' else s[0]
        y = s[1] % Ny if py in 'ip' else s[1]
        return (x, y)
    return Geo(Nx, Ny, px, py, ident, 'square')


def checkerboard():
    return Geo(2, 2, 'i', 'i', lambda s: (s[0] + s[1]) % 2, 'checkerboard')


def triangular(Nx, Ny, boundary, full_patch):
    px, py = {'infinite': 'ii', 'obc': 'oo', 'cylinder': 'po'}[boundary]
    if full_patch:
        return Geo(Nx, Ny, px, py, lambda s: (s[0] % Nx, s[1] % Ny), 'triangular_full')
    return Geo(Nx, Ny, px, py, lambda s: (s[1] - s[0]) % 3, 'triangular_3')


def pattern_valid(pat):
    """every label has a single neighbourhood (labels of top, left, bottom, right neighbours)"""
    Nx, Ny = len(pat), len(pat[0])
    env = {}
    for x in range(Nx):
        for y in range(Ny):
            e = (pat[(x - 1) % Nx][y], pat[x][(y - 1) % Ny], pat[(x + 1) % Nx][y], pat[x][(y + 1) % Ny])
            if env.setdefault(pat[x][y], e) != e:
                return False
    return True


def unitcell(pat):
    Nx, Ny = len(pat), len(pat[0])
    return Geo(Nx, Ny, 'i', 'i', lambda s: pat[s[0] % Nx][s[1] % Ny], 'unitcell')


def rgs(n, maxlabels):
    """restricted growth strings of length n with at most maxlabels labels (patterns up to label renaming)"""
    def rec(prefix, mx):
        if len(prefix) == n:
            yield prefix
            return
        for v in range(min(mx + 1, maxlabels - 1) + 1):
            yield from rec(prefix + [v], max(mx, v))
    yield from rec([0], 0)
