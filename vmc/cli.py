"""./check <ID> [--tier quick|thorough] [--seed N] [--replay file] [--budget s]"""
import argparse
import os
import sys

if os.environ.get('VERIF_REPO'):
    sys.path.insert(0, os.environ['VERIF_REPO'])

from vmc.engine import runner  # noqa: E402


def main(argv=None):
    ap = argparse.ArgumentParser()
    ap.add_argument('pid')
    ap.add_argument('--tier', default=os.environ.get('VERIF_TIER', 'quick'), choices=['quick', 'thorough'])
    ap.add_argument('--seed', type=int, default=int(os.environ.get('VERIF_SEED', '0') or 0))
    ap.add_argument('--replay', default=None)
    ap.add_argument('--budget', type=float, default=None)
    ap.add_argument('--nproc', type=int, default=None)
    ap.add_argument('--quiet', action='store_true')
    a = ap.parse_args(argv)
    modname = 'vmc.props.' + a.pid.lower()
    if a.replay:
        return runner.run_replay(modname, a.replay, quiet=a.quiet)
    return runner.run_check(modname, tier=a.tier, seed=a.seed, budget=a.budget, nproc=a.nproc)


if __name__ == '__main__':
    sys.exit(main())
