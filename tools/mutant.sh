#!/bin/bash
# tools/mutant.sh <patch> <ID> [<ID>...] : apply patch to /repo, run quick checks, always revert.
patch="$1"; shift
scr=/var/tmp/vr/mut_$$; mkdir -p /var/tmp/vr; git -C /repo worktree add --detach $scr HEAD -q || exit 2

git -C $scr apply "$patch" || { echo "patch does not apply"; git -C /repo worktree remove --force $scr; exit 2; }
trap "git -C /repo worktree remove --force $scr; git -C /repo worktree prune" EXIT
cd /verif
for id in "$@"; do
  out=$(VERIF_REPO=$scr VERIF_NO_CONFIRM=1 VERIF_BUDGET=${MUT_BUDGET:-240} ./check "$id" 2>&1)
  rc=$?
  echo "== $(basename $patch) $id rc=$rc"
  echo "$out" | grep -E "violation:|VIOLATION" | head -${MUT_LINES:-3}
done
