#!/bin/bash
# tools/mutant.sh <patch> <ID> [<ID>...] : apply patch to /repo, run quick checks, always revert.
patch="$1"; shift
cd /repo || exit 2
if ! git diff --quiet; then echo "repo dirty"; exit 2; fi
git apply "$patch" || { echo "patch does not apply"; exit 2; }
trap 'git -C /repo checkout -- . ' EXIT
cd /verif
for id in "$@"; do
  out=$(VERIF_NO_CONFIRM=1 VERIF_BUDGET=${MUT_BUDGET:-240} ./check "$id" 2>&1)
  rc=$?
  echo "== $(basename $patch) $id rc=$rc"
  echo "$out" | grep -E "violation:|VIOLATION" | head -${MUT_LINES:-3}
done
