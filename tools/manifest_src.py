HOOK_COMMITS = []
NOTES = ("All checks explore the real implementation (NumPy backend) exhaustively within stated bounds; "
         "no TLA+/Promela model is used (see DESIGN.md). VERIF_SEED selects only the integer data alphabet.")
NOT_APPLICABLE = {}
CHECKS = {
 'C19': dict(category='exploration', design_ref='DESIGN.md §2 C19',
   technique='exhaustive product enumeration of charge tuples/signatures/groupings and of Leg constructor arguments against a tuple-arithmetic group model',
   text='Complete enumeration of all charge m-tuples (m<=3 quick, 4 thorough) in a bounded box incl. non-canonical representatives, all signature vectors and groupings, for every symmetry class found in yastn.sym; complete enumeration of Leg constructor arguments in and just outside the valid domain. Exhaustive within the box, which is the right level for a finite algebraic law.',
   note='Trusted: the moduli table of the reference model (self-checked for the group axioms). U(1) factors only inside the box |t|<=3 (6 thorough).'),
}
