HOOK_COMMITS = []
NOTES = ("All checks explore the real implementation (NumPy backend) exhaustively within stated bounds; "
         "no TLA+/Promela model is used (see DESIGN.md). VERIF_SEED selects only the integer data alphabet.")
NOT_APPLICABLE = {}
CHECKS = {
 'C02': dict(category='model_checking', design_ref='DESIGN.md §2 C02',
   technique='explicit-state breadth-first search over sequences of public operations on the real implementation (state hash = all fields of the tensor object), invariant monitors on every produced tensor',
   text='BFS to depth 2 (quick) / 3 (thorough) from ~28 seed tensors per symmetry (7 symmetries, ranks 0..6, charged/uncharged, missing blocks, diagonal, lazily transposed) over ~70-100 enabled actions per state (unary algebra, fusion hard/meta/unfuse, svd/qr/eigh/truncation, tensordot/ncon/block with derived partners). Every produced tensor is checked by is_consistent(), by an independent well-formedness predicate built on a reference group law, and against the charge the algebra dictates. All reachable states within the depth are covered.',
   note='Trusted: the reading of the Tensor data structure in models/wf.py and the reference group law. Depth <= 3; the explorer acts on the real objects so there is no model/implementation gap (traces_validated_against_impl = transitions).'),
 'C15': dict(category='model_checking', design_ref='DESIGN.md §2 C15',
   technique='explicit-state BFS over operation sequences with byte snapshots of receiver, arguments and live ancestors around every call; exhaustive aliasing histories (creator x in-place operation x side)',
   text='Every call made by the explorer (BFS alphabet plus ~55 observer calls per expanded state, incl. dict/list arguments) is bracketed by canonical byte snapshots of all arguments and of all ancestors that may share storage; copy()/clone() independence is checked in both directions for every creator and every documented in-place operation; view creators are allowed to alias. Uncovered public API members are listed in the evidence.',
   note='Snapshot covers every attribute of Tensor (self-test fails on a new attribute). Containers (MPS/PEPS/environments) are covered by the container section when present in the evidence counters.'),
 'C01': dict(category='exploration', design_ref='DESIGN.md §2 C01',
   technique='exhaustive product enumeration of operand structures (symmetry, signature, sector sets, charge, absent blocks, lazy/materialised permutation) x operation x arguments, compared bitwise with NumPy on ground-truth dense arrays',
   text='Every public algebra operation (unary catalogue, tensordot/@, vdot, add/sub/add(), broadcast, apply_mask, diagonal operands, trace, diag, add/remove_leg, ncon/einsum over a complete catalogue of small networks and all contraction orders) is executed on every operand combination of a bounded structural alphabet in all 7 symmetries and 2 dtypes; the result is read back through block access and through to_numpy and compared bitwise with the same NumPy operation on dense ground truth (integer data). Exhaustive inside the alphabet; it is a coverage statement, not a proof.',
   note='Trusted: NumPy; the generator builds tensors with set_block and keeps the dense truth itself. Sector dimensions <= 3, ranks <= 3 (4 for trace/structural ops; 4 throughout in thorough). Fused operands are covered by C03, policies by C14.'),
 'C19': dict(category='exploration', design_ref='DESIGN.md §2 C19',
   technique='exhaustive product enumeration of charge tuples/signatures/groupings and of Leg constructor arguments against a tuple-arithmetic group model',
   text='Complete enumeration of all charge m-tuples (m<=3 quick, 4 thorough) in a bounded box incl. non-canonical representatives, all signature vectors and groupings, for every symmetry class found in yastn.sym; complete enumeration of Leg constructor arguments in and just outside the valid domain. Exhaustive within the box, which is the right level for a finite algebraic law.',
   note='Trusted: the moduli table of the reference model (self-checked for the group axioms). U(1) factors only inside the box |t|<=3 (6 thorough).'),
}
