HOOK_COMMITS = []
NOTES = ("All checks explore the real implementation (NumPy backend) exhaustively within stated bounds; "
         "no TLA+/Promela model is used (see DESIGN.md). VERIF_SEED selects only the integer data alphabet.")
NOT_APPLICABLE = {}
CHECKS = {
 'C01': dict(category='exploration', design_ref='DESIGN.md §2 C01',
   technique='exhaustive product enumeration of operand structures (symmetry, signature, sector sets, charge, absent blocks, lazy/materialised permutation) x operation x arguments, compared bitwise with NumPy on ground-truth dense arrays',
   text='Every public algebra operation (unary catalogue, tensordot/@, vdot, add/sub/add(), broadcast, apply_mask, diagonal operands, trace, diag, add/remove_leg, ncon/einsum over a complete catalogue of small networks and all contraction orders) is executed on every operand combination of a bounded structural alphabet in all 7 symmetries and 2 dtypes; the result is read back through block access and through to_numpy and compared bitwise with the same NumPy operation on dense ground truth (integer data). Exhaustive inside the alphabet; it is a coverage statement, not a proof.',
   note='Trusted: NumPy; the generator builds tensors with set_block and keeps the dense truth itself. Sector dimensions <= 3, ranks <= 3 (4 for trace/structural ops; 4 throughout in thorough). Fused operands are covered by C03, policies by C14.'),
 'C19': dict(category='exploration', design_ref='DESIGN.md §2 C19',
   technique='exhaustive product enumeration of charge tuples/signatures/groupings and of Leg constructor arguments against a tuple-arithmetic group model',
   text='Complete enumeration of all charge m-tuples (m<=3 quick, 4 thorough) in a bounded box incl. non-canonical representatives, all signature vectors and groupings, for every symmetry class found in yastn.sym; complete enumeration of Leg constructor arguments in and just outside the valid domain. Exhaustive within the box, which is the right level for a finite algebraic law.',
   note='Trusted: the moduli table of the reference model (self-checked for the group axioms). U(1) factors only inside the box |t|<=3 (6 thorough).'),
}
