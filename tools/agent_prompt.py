#!/usr/bin/env python3
import json, sys
pid, tag = sys.argv[1], sys.argv[2]
p = [json.loads(l) for l in open('/verif/properties.jsonl')]
p = [x for x in p if x['id'] == pid][0]
wt = f"/tmp/seed_{pid}_{tag}"
print(f"""You are helping to test a verification framework for the Python library yastn (block-sparse tensors with abelian symmetries, MPS/PEPS algorithms; NumPy backend; no torch installed). Your job: produce ONE realistic, subtle code change ("seeded fault") to the library that BREAKS the semantic property below while the library still imports and the existing test-suite still passes.

PROPERTY {p['id']}: {p['title']}
Statement: {p['statement']}
Quantified over: {p['quantifier']['text']}
Relevant files: {', '.join(p['anchors']['files'])}

Set-up (do exactly this):
1. Create your own scratch git worktree:  git -C /repo worktree add --detach {wt} HEAD
   Work ONLY inside {wt}. Never edit /repo itself, never touch /verif (do not read it either).
2. Run Python as:  cd {wt} && PYTHONPATH={wt} /venv/bin/python ...   (this makes `import yastn` pick up your worktree copy; verify once with `print(yastn.__file__)`).
3. Make a small change (1-10 lines) in {wt}/yastn/... that violates the property. It must need something SPECIFIC to manifest: an unusual input (e.g. a particular symmetry, a lazily transposed or fused operand, sectors present in only one operand, non-zero tensor charge, a particular argument value), a multi-step sequence of operations, a particular configuration, or two cooperating sites that each look fine alone. Do NOT make a change that ordinary use exposes at once, and do not make a change that only raises an exception or crashes - the result should be silently wrong (wrong values, wrong structure, wrong reported number). The change should look like a plausible programmer mistake or mis-optimisation. {sys.argv[3] if len(sys.argv) > 3 else ''}
4. Check that the relevant existing tests still pass with your change:  cd {wt} && PYTHONPATH={wt} /venv/bin/python -m pytest -q -p no:cacheprovider -x --timeout=900 tests/<relevant subdirectory or files>  (run at least the test files that exercise the code you changed and the whole tests/tensor directory if you changed yastn/tensor; the slow directories tests/peps and tests/mps only if you changed code they use - then run them fully, it can take 10-15 minutes, use -n 4 for parallelism). If a test fails, choose a different change.
5. Write a demonstration script {wt}/demo.py: a small self-contained program (assert-based) that exits 0 on the ORIGINAL code and exits non-zero (assertion failure showing the wrong result) with your change. Verify both: run it with PYTHONPATH={wt} (must fail) and with PYTHONPATH=/repo (must pass).
6. Save the patch:  cd {wt} && git diff -- yastn > {wt}/patch.diff   (only library changes, not demo.py).
7. Write {wt}/meta.json with keys: property ("{pid}"), summary (what was changed and why it breaks the property), needs (what specific input/sequence/configuration is needed for it to manifest), tests_run (the exact pytest commands you ran and their pass counts).
Leave the worktree in place when done (do not remove it). Do not commit anything.

Report back in a few lines: the path of the worktree, a one-paragraph description of the change, what it needs to manifest, and which tests you ran. If you cannot find a change that keeps the tests passing after a few attempts, say so.""")
