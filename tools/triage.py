#!/venv/bin/python
"""tools/triage.py <ID> [filter k=v ...]  : run groups in-process (pool), aggregate violation messages by signature."""
import sys, os, re, collections, importlib, time, multiprocessing as mp
sys.path.insert(0, os.path.dirname(os.path.dirname(os.path.abspath(__file__))))
os.environ.setdefault('PYTHONHASHSEED', '0')
from vmc.engine import runner
runner.MAX_VIOL_PER_GROUP = 100000

def work(a):
    modname, g, tier, budget = a
    mod = importlib.import_module(modname)
    acc = runner.Acc(time.time() + budget, 0, tier)
    try:
        mod.run_group(g, acc)
    except runner.OutOfTime:
        pass
    known = {f['key'] for f in runner.load_findings() if f.get('status') == 'known'}
    return [(v['msg'], v['case']) for v in acc.violations if v.get('key') not in known], acc.evaluations

if __name__ == '__main__':
    pid = sys.argv[1]
    filt = dict(kv.split('=') for kv in sys.argv[2:] if '=' in kv and not kv.startswith('--'))
    tier = 'thorough' if '--thorough' in sys.argv else 'quick'
    budget = float(filt.pop('budget', 60))
    modname = 'vmc.props.' + pid.lower()
    mod = importlib.import_module(modname)
    gs = [g for g in mod.groups(tier, 0) if all(str(g.get(k)) == v for k, v in filt.items())]
    print(len(gs), 'groups')
    agg = collections.defaultdict(list)
    with mp.get_context('fork').Pool(16) as pool:
        tot = 0
        for viols, ev in pool.imap_unordered(work, [(modname, g, tier, budget) for g in gs]):
            tot += ev
            for msg, case in viols:
                sig = re.sub(r'[-+]?\d+(\.\d+)?(e[-+]?\d+)?j?', '#', msg)[:160]
                agg[sig].append((msg, case))
    print('evaluations', tot)
    for sig, items in sorted(agg.items(), key=lambda kv: -len(kv[1])):
        print(f"\n== {len(items)} x {sig}")
        print('   e.g.', items[0][0][:400])
        print('   case', runner.dumps(items[0][1])[:500])
