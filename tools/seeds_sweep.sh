#!/bin/bash
# tools/seeds_sweep.sh <ID...> : run quick checks under several VERIF_SEED values, print rc per run
cd /verif
for id in "$@"; do for seed in 1 2 7 12345; do
  out=$(VERIF_SEED=$seed ./check $id 2>&1); rc=$?
  echo "$id seed=$seed rc=$rc $(echo "$out" | grep -m1 -E 'violation:|HARNESS-ERROR' | cut -c1-200)"
done; done
