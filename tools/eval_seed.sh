#!/bin/bash
# tools/eval_seed.sh <worktree-or-seeded-dir> <name> <ID> [<ID>...]
# import a seeded fault into /verif/seeded/<name>, confirm its demo on a pristine and a patched scratch worktree,
# run the quick checks against the patched scratch copy (VERIF_REPO), remove the scratch copy.  /repo is not touched.
wt="$1"; name="$2"; shift 2
dst=/verif/seeded/$name
mkdir -p $dst
[ "$(readlink -f $wt)" != "$(readlink -f $dst)" ] && cp $wt/patch.diff $wt/demo.py $wt/meta.json $dst/ 2>/dev/null
scr=/var/tmp/vr/$name
rm -rf $scr; mkdir -p /var/tmp/vr
git -C /repo worktree add --detach $scr HEAD -q || exit 2
trap 'git -C /repo worktree remove --force '$scr' 2>/dev/null; git -C /repo worktree prune' EXIT
echo "--- demo on unchanged tree:"; (cd /tmp && PYTHONPATH=$scr timeout 900 /venv/bin/python $dst/demo.py >/dev/null 2>&1; echo "rc=$?")
git -C $scr apply $dst/patch.diff 2>/dev/null || (cd $scr && patch -p1 -F3 -s < $dst/patch.diff) || { echo "patch does not apply"; exit 2; }
git -C $scr diff -- yastn > $dst/patch.diff   # refreshed against the current HEAD
echo "--- demo with patch:"; (cd /tmp && PYTHONPATH=$scr timeout 900 /venv/bin/python $dst/demo.py >/dev/null 2>&1; echo "rc=$?")
cd /verif
for id in "$@"; do
  out=$(VERIF_REPO=$scr VERIF_NO_CONFIRM=1 VERIF_BUDGET=${MUT_BUDGET:-300} ./check "$id" 2>&1)
  rc=$?
  echo "== $name $id rc=$rc"
  echo "$out" | grep -E "violation:|VIOLATION" | head -${MUT_LINES:-3} | cut -c1-500
  echo -e "$(date -u +%FT%TZ)\t$name\t$id\trc=$rc\t$(echo "$out" | grep -m1 "violation:" | cut -c1-200)" >> /verif/seeded/results.tsv
done
