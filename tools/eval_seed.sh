#!/bin/bash
# tools/eval_seed.sh <worktree> <name> <ID> [<ID>...] : import a seeded fault, confirm its demo, run checks against it.
wt="$1"; name="$2"; shift 2
dst=/verif/seeded/$name
mkdir -p $dst
cp $wt/patch.diff $wt/demo.py $wt/meta.json $dst/ 2>/dev/null
cd /repo || exit 2
if ! git diff --quiet; then echo "repo dirty"; exit 2; fi
echo "--- demo on unchanged tree:"; (cd /tmp && PYTHONPATH=/repo timeout 600 /venv/bin/python $dst/demo.py >/dev/null 2>&1; echo "rc=$?")
git apply $dst/patch.diff || { echo "patch does not apply"; exit 2; }
trap 'git -C /repo checkout -- . ' EXIT
echo "--- demo with patch:"; (cd /tmp && PYTHONPATH=/repo timeout 600 /venv/bin/python $dst/demo.py >/dev/null 2>&1; echo "rc=$?")
cd /verif
for id in "$@"; do
  out=$(VERIF_NO_CONFIRM=1 VERIF_BUDGET=${MUT_BUDGET:-300} ./check "$id" 2>&1)
  rc=$?
  echo "== $name $id rc=$rc"
  echo -e "$(date -u +%FT%TZ)\t$name\t$id\trc=$rc\t$(echo "$out" | grep -m1 "violation:" | cut -c1-200)" >> /verif/seeded/results.tsv
  echo "$out" | grep -E "violation:|VIOLATION" | head -${MUT_LINES:-3} | cut -c1-500
done
