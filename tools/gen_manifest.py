#!/usr/bin/env python3
"""Regenerates /verif/MANIFEST.json from tools/manifest_src.py (single source of truth for claims)."""
import json, os, sys
ROOT = os.path.dirname(os.path.dirname(os.path.abspath(__file__)))
sys.path.insert(0, os.path.join(ROOT, 'tools'))
import manifest_src as M

props = [json.loads(l)['id'] for l in open(os.path.join(ROOT, 'properties.jsonl'))]
checks, na = [], []
for pid in props:
    if pid in M.CHECKS and os.path.exists(os.path.join(ROOT, 'vmc', 'props', pid.lower() + '.py')):
        c = M.CHECKS[pid]
        checks.append({
            'property_id': pid,
            'quick_cmd': f'./check {pid} --tier quick',
            'thorough_cmd': f'./check {pid} --tier thorough',
            'evidence_file': f'/verif/evidence/{pid}.json',
            'replay_cmd_template': f'./check {pid} --replay {{path}}',
            'engine': 'vmc',
            'level_claimed': {'category': c['category'], 'text': c['text'], 'design_ref': c['design_ref']},
            'level_note': c['note'],
            'technique': c['technique'],
        })
    else:
        na.append({'property_id': pid, 'reason': M.NOT_APPLICABLE.get(pid, 'check not built yet in this session; no claim is made')})
man = {
    'version': 1,
    'setup_cmd': 'cd /verif && /venv/bin/python -c "import vmc.engine.runner, yastn, numpy, scipy" && chmod +x check',
    'hooks': {'guard': 'YASTN_VERIF', 'enable': 'no source hooks: all seams are installed from the harness by rebinding module attributes at run time; the guard name is reserved and unused',
              'baseline_off_cmd': 'cd /repo && /venv/bin/python -m pytest -ra -q -p no:cacheprovider --timeout=900 --continue-on-collection-errors',
              'source_commits': M.HOOK_COMMITS, 'add_only': True},
    'engines': [{'name': 'vmc', 'path': '/verif/vmc', 'serves_properties': [c['property_id'] for c in checks],
                 'kind_free_text': 'hand-written bounded-exhaustive explorer for the Python implementation (product enumeration, explicit-state BFS over operation sequences, deviation-bounded DFS), dense NumPy reference models'}],
    'checks': checks,
    'notes': M.NOTES,
    'not_applicable': na,
}
json.dump(man, open(os.path.join(ROOT, 'MANIFEST.json'), 'w'), indent=1)
print('claimed', len(checks), 'not_applicable', len(na))
