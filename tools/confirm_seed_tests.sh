#!/bin/bash
# tools/confirm_seed_tests.sh <name...> : apply seeded/<name>/patch.diff in a scratch worktree and run the repository's
# whole test-suite there (xdist; test_save_load serially because of its shared tmp.h5); append the outcome to
# seeded/tests_confirmed.tsv.  /repo is not touched; the scratch worktree is removed.
cd /verif
for name in "$@"; do
  scr=/var/tmp/vr/t_$name
  rm -rf $scr; mkdir -p /var/tmp/vr
  git -C /repo worktree add --detach $scr HEAD -q || { echo "$name worktree failed"; continue; }
  if git -C $scr apply seeded/$name/patch.diff 2>/dev/null || (cd $scr && patch -p1 -F3 -s < /verif/seeded/$name/patch.diff); then
    a=$(cd $scr && PYTHONPATH=$scr timeout 3000 /venv/bin/python -m pytest -q -p no:cacheprovider --timeout=900 -n ${NPROC:-6} --deselect tests/mps/test_save_load.py 2>&1 | tail -1)
    b=$(cd $scr && PYTHONPATH=$scr timeout 900 /venv/bin/python -m pytest -q -p no:cacheprovider --timeout=900 tests/mps/test_save_load.py 2>&1 | tail -1)
    echo -e "$(date -u +%FT%TZ)\t$name\t$(git -C /repo log -1 --format=%h)\t$a\t$b" >> seeded/tests_confirmed.tsv
    echo "$name | $a | $b"
  else
    echo "$name patch does not apply"
  fi
  git -C /repo worktree remove --force $scr 2>/dev/null; git -C /repo worktree prune
done
